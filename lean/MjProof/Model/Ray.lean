import MjProof.Num
/-
Hand model of the selection logic of `src/engine/engine_ray.c` (C16):

* `rayEliminate`  — `ray_eliminate`: the geom filter (body exclusion, invisible geom / material, static
  exclusion, group mask) as a pure Boolean function of exactly the attributes the C code reads.
* `mjRay`         — the geom loop of `mj_ray`: distance/geom id of the first geom attaining the smallest
  non-negative per-geom distance among the geoms that are not eliminated; `(-1, -1)` when there is none.
  The per-geom distances (`mju_rayGeom`, `mj_rayMesh`, …) are inputs of the model.
* `singleRay` / `multiRay` — `mju_singleRay` / the ray loop of `mj_multiRay`: the same fold, where a geom is
  skipped when its `geom_eliminate` flag (filter or cutoff, computed once per call by `mju_multiRayPrepare`)
  is set or when it is culled for this ray (body bounding-sphere test, bounding-angle test); a ray with
  `dot(vec,vec) < mjMINVAL` gets distance −1 and its `geomid` entry is *not written*.

Generic over the law-free number class `MjNum α`: run on `Float` by `lean/Drivers/C16.lean`, reasoned about on
`ℝ` in `MjProof/Lemmas/Ray.lean`.  Core Lean only.
-/
namespace MjProof.Ray

/-- `mjNGROUP` -/
abbrev nGroup : Nat := 6

/-- what `ray_eliminate` reads for geom `g` -/
structure GeomAttr where
  /-- `m->geom_bodyid[g]` -/
  bodyid : Int
  /-- `m->geom_matid[g]` -/
  matid : Int
  /-- `m->geom_rgba[4*g+3] == 0` -/
  geomAlpha0 : Bool
  /-- `m->mat_rgba[4*matid+3] == 0` (read only when `matid >= 0`) -/
  matAlpha0 : Bool
  /-- `m->body_weldid[bodyid] == 0` (the geom's body is the world or welded to it) -/
  weld0 : Bool
  /-- `m->geom_group[g]` -/
  group : Int
  deriving Repr

/-- `mjMIN(mjNGROUP-1, mjMAX(0, group))` with the macros' own comparisons
    (`mjMAX(a,b) = a > b ? a : b`, `mjMIN(a,b) = a < b ? a : b`); always a valid index of the mask. -/
def clampGroup (g : Int) : Fin nGroup :=
  let mx : Int := if 0 > g then 0 else g
  let mn : Int := if 5 < mx then 5 else mx
  ⟨mn.toNat, by
    show (if (5:Int) < (if 0 > g then 0 else g) then (5:Int) else (if 0 > g then 0 else g)).toNat < 6
    split <;> split <;> omega⟩

/-- `ray_eliminate(m, d, geomid, geomgroup, flg_static, bodyexclude)`; `mask = none` is `geomgroup == NULL`,
    `mask[i] = true` is `geomgroup[i] != 0`.  Returns `true` when the geom is skipped. -/
def rayEliminate (g : GeomAttr) (mask : Option (Vector Bool nGroup)) (flgStatic : Bool) (bodyexclude : Int) : Bool :=
  -- body exclusion
  if g.bodyid == bodyexclude then true
  -- invisible geom exclusion
  else if g.matid < 0 && g.geomAlpha0 then true
  -- invisible material exclusion
  else if g.matid ≥ 0 && g.matAlpha0 then true
  -- static exclusion
  else if !flgStatic && g.weld0 then true
  else match mask with
    -- no geomgroup inclusion
    | none => false
    -- group inclusion/exclusion
    | some m => m[clampGroup g.group] == false

variable {α : Type} [MjNum α]

/-- one iteration of the geom loop of `mj_ray` for geom `i`:
    `if (!eliminated) { newdist = …; if (newdist >= 0 && (newdist < dist || dist < 0)) { dist = newdist; *geomid = i; } }` -/
def rayStep (acc : α × Int) (i : Nat) (elim : Bool) (newdist : α) : α × Int :=
  if elim then acc
  else if MjNum.ofInt 0 ≤ newdist ∧ (newdist < acc.1 ∨ acc.1 < MjNum.ofInt 0) then (newdist, (i : Int))
  else acc

/-- the geom loop from geom index `i` on -/
def rayLoop : List (Bool × α) → Nat → α × Int → α × Int
  | [], _, acc => acc
  | (e, d) :: gs, i, acc => rayLoop gs (i + 1) (rayStep acc i e d)

/-- `mj_ray` on per-geom (eliminated?, distance) pairs: `dist = -1; *geomid = -1;` then the loop. -/
def mjRay (gs : List (Bool × α)) : α × Int :=
  rayLoop gs 0 (MjNum.ofInt (-1), -1)

/-- `mj_ray` including the filter: per geom the attributes read by `ray_eliminate` and the distance returned by
    the type-specific ray function. -/
def mjRayFiltered (gs : List (GeomAttr × α)) (mask : Option (Vector Bool nGroup)) (flgStatic : Bool)
    (bodyexclude : Int) : α × Int :=
  mjRay (gs.map fun p => (rayEliminate p.1 mask flgStatic bodyexclude, p.2))

/-- per-geom input of `mju_singleRay`: `geom_eliminate[i]`, "culled for this ray" (the body failed the bounding
    sphere test or the ray is outside the geom's bounding angles), per-geom distance -/
structure MultiGeom (α : Type) where
  elim : Bool
  culled : Bool
  dist : α

/-- `mju_singleRay`: the same loop, skipping eliminated and culled geoms -/
def singleRay (gs : List (MultiGeom α)) : α × Int :=
  mjRay (gs.map fun g => (g.elim || g.culled, g.dist))

/-- `mju_dot3(vec, vec) < mjMINVAL` (the literal is written as the translator writes `mjMINVAL`) -/
def shortVec (v0 v1 v2 : α) : Bool :=
  decide ((((v0 * v0) + (v1 * v1)) + (v2 * v2)) < MjNum.ofSci 10000000000000001 true 31)

/-- one ray of `mj_multiRay`: `short` = `mju_dot3(vec,vec) < mjMINVAL` -/
structure MultiRayIn (α : Type) where
  short : Bool
  geoms : List (MultiGeom α)

/-- the ray loop of `mj_multiRay`: per ray the distance and what is written to `geomid[i]`
    (`none`: the entry is left untouched, which the C code does for a too-short direction). -/
def multiRay (rays : List (MultiRayIn α)) : List (α × Option Int) :=
  rays.map fun r =>
    if r.short then (MjNum.ofInt (-1), none)
    else let x := singleRay r.geoms; (x.1, some x.2)

end MjProof.Ray
