/-
C27 — executable model of the per-actuator scalar computations of `mj_fwdActuation` (src/engine/engine_forward.c)
over the law-free number class `MjNum α`, in the operation order of the C code (the `Float` instance is compared
bitwise with the engine).  Core Lean only.

Built on the *generated* kernels (c2lean, regenerated from the tree on every run): `Gen.mju_clip`, `Gen.mju_max`,
`Gen.mju_isBad`, `Gen.mju_muscleGain`, `Gen.mju_muscleBias`, `Gen.mju_muscleDynamics`.

Modelled as coded:
  * control stage: local copy of ctrl; `clampVec(ctrl, ctrlrange, ctrllimited)` unless mjDSBL_CLAMPCTRL; then
    "if any control is bad (mju_isBad) all controls become 0";
  * activation derivative for dyntype none / integrator / filter / filterexact / muscle (user: 0 without callback);
  * SISO force law for gaintype fixed / affine / muscle / user-without-callback and biastype none / affine / muscle /
    user-without-callback: `force = gain * input; force += bias`, the input being the (clamped) control when the
    actuator has no activation state and the last activation otherwise;
  * `mj_actuatorDisabled` (group in 0..30 and its bit set in opt.disableactuator): the force stays 0;
  * the tendon total-force limit (forces of the actuators on a force-limited tendon rescaled so that their sum
    meets the violated bound);
  * the forcerange clamp, skipped for actuators of disabled groups (`if (mj_actuatorDisabled(m, i)) continue;`);
  * `qfrc_actuator = moment' * force` as `mju_mulMatTVecSparse` computes it (rows with a zero force skipped,
    `res[colind] += value * force` in storage order);
  * the addition of `qfrc_gravcomp` on joints with actgravcomp and the joint-level clamp
    `clampVec(qfrc_actuator, jnt_actfrcrange, jnt_actfrclimited, njnt, jnt_dofadr)` (first dof of the joint).
  * the SOURCE of every local control: `d->ctrl[adr]` for an actuator without delay, `mj_readCtrl(m, d, i, d->time,
    interp)` for a delayed one — i.e. `mju_historyRead` of the actuator's history buffer `[user, cursor, times(n),
    values(n)]` at `time - delay` (circular binary search `historyFindIndex`, constant extrapolation at both ends,
    exact-match, zero-order hold, linear and cubic (Catmull-Rom / Hermite) interpolation, in the operation order of
    the C code) — and the ORDER "read, then clamp, then bad-control test" (`ctrlStageDelayed`);
  * `actearly`: the force input of a stateful actuator is `mj_nextActivation(act, act_dot)` (C05's model
    `Integrate.nextActivation`, tied to the engine by C05 and again here) instead of the current activation.
Not modelled (the correspondence filters them out / the generator does not produce them): the setpoint wrapping of
servos on ball joints / rotational sites (`wrapPeriod` > 0), PID / DC-motor / SO3 actuators, plugins, user callbacks,
sleeping; the WRITING of history buffers (`mju_historyInsert`, done by `mj_advance`) is not modelled — the buffers
the real `mj_step` produced are read back from `mjData` and fed to `historyRead`.
-/
import MjProof.Num
import MjProof.Gen.Kernels
import MjProof.Model.Integrate

namespace MjProof.Actuation
open MjProof MjProof.Gen

variable {α : Type} [MjNum α]

def zero : α := MjNum.ofInt 0
/-- `mjMINVAL` as the compiler saw it (the generated kernels carry the same literal) -/
def minval : α := MjNum.ofSci 10000000000000001 true 31

/-! ### control stage -/

/-- one entry of `clampVec`: `if (limited[i]) vec[i] = mju_clip(vec[i], range[2i], range[2i+1])` -/
def clampEntry (limited : Bool) (x lo hi : α) : α := if limited then mju_clip x lo hi else x

structure Ctrl (α : Type) where
  value : α
  limited : Bool
  lo : α
  hi : α

/-- the local control vector the force computation uses -/
def ctrlStage (clampDisabled : Bool) (cs : List (Ctrl α)) : List α :=
  let clamped := cs.map (fun c => if clampDisabled then c.value else clampEntry c.limited c.value c.lo c.hi)
  if clamped.any (fun x => mju_isBad x != 0) then clamped.map (fun _ => zero) else clamped

/-! ### delayed controls: `mj_readCtrl` / `mju_historyRead` (dim = 1) -/

/-- one control history buffer `[user(1), cursor(1), times(n), values(n)]`; `n = times.length` -/
structure History (α : Type) where
  cursor : Nat              -- `(int) buf[1]`: physical index of the newest sample
  times : List α
  values : List α

/-- `historyPhysicalIndex(cursor, n, logical)` -/
def physIdx (cursor n logical : Nat) : Nat := (cursor + 1 + logical) % n

/-- the `while (hi - lo > 1)` loop of `historyFindIndex` (`fuel` ≥ n suffices: `hi - lo` strictly decreases;
    `none` if the fuel runs out or an index leaves the buffer) -/
def bsearch (times : List α) (cursor : Nat) (t : α) : Nat → Nat → Nat → Option Nat
  | 0, lo, hi => if hi - lo > 1 then none else some hi
  | fuel + 1, lo, hi =>
    if hi - lo > 1 then
      let mid := (lo + hi) / 2
      match times[physIdx cursor times.length mid]? with
      | none => none
      | some tm => if tm < t then bsearch times cursor t fuel mid hi else bsearch times cursor t fuel lo mid
    else some hi

/-- `historyFindIndex(times, n, cursor, t)`: logical index i with times[i-1] < t <= times[i] -/
def findIndex (h : History α) (t : α) : Option Nat :=
  let n := h.times.length
  match h.times[physIdx h.cursor n 0]?, h.times[physIdx h.cursor n (n - 1)]? with
  | some tOld, some tNew =>
    if t ≤ tOld then some 0
    else if tNew < t then some n
    else bsearch h.times h.cursor t n 0 (n - 1)
  | _, _ => none

/-- the four Hermite basis values and the final combination of the cubic branch -/
def cubic (alpha dt vLo vHi mLo mHi : α) : α :=
  let alpha2 := alpha * alpha
  let alpha3 := alpha2 * alpha
  let h00 := (MjNum.ofInt 2 * alpha3 - MjNum.ofInt 3 * alpha2) + MjNum.ofInt 1
  let h10 := (alpha3 - MjNum.ofInt 2 * alpha2) + alpha
  let h01 := MjNum.ofInt (-2) * alpha3 + MjNum.ofInt 3 * alpha2
  let h11 := alpha3 - alpha2
  ((h00 * vLo + (h10 * dt) * mLo) + h01 * vHi) + (h11 * dt) * mHi

/-- the interpolating part of `mju_historyRead` (t strictly inside the buffer, no exact match): `i` is the
    bracketing logical index, `interp` 0 = zero-order hold, 1 = linear, anything else = cubic -/
def interpolate (h : History α) (t : α) (interp : Int) (i : Nat) : Option α :=
  let n := h.times.length
  if i = 0 then none else
  let pLo := physIdx h.cursor n (i - 1)
  let pHi := physIdx h.cursor n i
  match h.times[pLo]?, h.times[pHi]?, h.values[pLo]?, h.values[pHi]? with
  | some tLo, some tHi, some vLo, some vHi =>
    if interp = 0 then some vLo
    else
      let dt := tHi - tLo
      let alpha := (t - tLo) / dt
      if interp = 1 then some (vLo + alpha * (vHi - vLo))
      else
        let mLo : Option α :=
          if i > 1 then
            let pp := physIdx h.cursor n (i - 2)
            match h.times[pp]?, h.values[pp]? with
            | some tp, some vp => some ((vHi - vp) / (tHi - tp))
            | _, _ => none
          else some zero
        let mHi : Option α :=
          if i < n - 1 then
            let pq := physIdx h.cursor n (i + 1)
            match h.times[pq]?, h.values[pq]? with
            | some tq, some vq => some ((vq - vLo) / (tq - tLo))
            | _, _ => none
          else some zero
        match mLo, mHi with
        | some mLo, some mHi => some (cubic alpha dt vLo vHi mLo mHi)
        | _, _ => none
  | _, _, _, _ => none

/-- `mju_historyRead(buf, n, 1, &res, t, interp)` followed by `ptr ? *ptr : res` -/
def historyRead (h : History α) (t : α) (interp : Int) : Option α :=
  let n := h.times.length
  if h.values.length ≠ n then none else
  let pOld := physIdx h.cursor n 0
  let pNew := physIdx h.cursor n (n - 1)
  match h.times[pOld]?, h.times[pNew]? with
  | some tOld, some tNew =>
    if t ≤ tOld + minval then h.values[pOld]?
    else if tNew - minval ≤ t then h.values[pNew]?
    else
      match findIndex h t with
      | none => none
      | some i =>
        let pI := physIdx h.cursor n i
        match h.times[pI]? with
        | none => none
        | some tI =>
          if MjNum.abs (t - tI) < minval then h.values[pI]?
          else interpolate h t interp i
  | _, _ => none

/-- what `mj_fwdActuation` knows about one scalar control input -/
structure CtrlIn (α : Type) where
  raw : α                   -- d->ctrl[actuator_ctrladr[i]]
  limited : Bool
  lo : α
  hi : α
  delay : α                 -- m->actuator_delay[i]
  interp : Int              -- m->actuator_history[2i+1]
  hist : Option (History α) -- `none`: nsample == 0 (no buffer)

/-- `mj_readCtrl(m, d, i, time, interp)`: the current control when the actuator has no buffer -/
def readCtrl (c : CtrlIn α) (time : α) : Option α :=
  match c.hist with
  | none => some c.raw
  | some h => historyRead h (time - c.delay) c.interp

/-- "read from ctrl or history buffer for delayed actuators": `if (m->actuator_delay[i]) … else copy` -/
def ctrlSource (c : CtrlIn α) (time : α) : Option α :=
  if MjNum.beq c.delay zero then some c.raw else readCtrl c time

/-- the copy loop over all (scalar) controls; `none` if some buffer read leaves its buffer -/
def ctrlSources (time : α) : List (CtrlIn α) → Option (List α)
  | [] => some []
  | c :: cs =>
    match ctrlSource c time, ctrlSources time cs with
    | some v, some vs => some (v :: vs)
    | _, _ => none

/-- the clamp-stage view of a control input whose source value is `v` -/
def CtrlIn.withValue (c : CtrlIn α) (v : α) : Ctrl α := { value := v, limited := c.limited, lo := c.lo, hi := c.hi }

/-- the local control vector with delays: sources first, THEN the clamp and the bad-control test of `ctrlStage` -/
def ctrlStageDelayed (clampDisabled : Bool) (time : α) (cs : List (CtrlIn α)) : Option (List α) :=
  match ctrlSources time cs with
  | none => none
  | some vs => some (ctrlStage clampDisabled ((cs.zip vs).map (fun cv => cv.1.withValue cv.2)))

/-! ### activation dynamics -/

inductive DynType | none | integrator | filter | filterexact | muscle | user
  deriving DecidableEq, Repr

/-- `d->act_dot[act_last]` (user dynamics without a callback leaves the zeroed value) -/
def actDot (t : DynType) (dynprm0 dynprm1 dynprm2 ctrl act : α) : α :=
  match t with
  | .none => zero
  | .integrator => ctrl
  | .filter | .filterexact => (ctrl - act) / mju_max minval dynprm0
  | .muscle => mju_muscleDynamics ctrl act dynprm0 dynprm1 dynprm2
  | .user => zero

/-- the activation a stateful SISO actuator feeds into the force law: `mj_nextActivation(m, d, i, act_adr,
    d->act_dot[act_adr])` when `actuator_actearly[i]`, the current activation otherwise -/
def forceInput (early : Bool) (p : Integrate.ActSlot α) (h act actDot : α) : α :=
  if early then Integrate.nextActivation p h act actDot else act

/-! ### force generation -/

inductive GainType | fixed | affine | muscle | user
  deriving DecidableEq, Repr
inductive BiasType | none | affine | muscle | user
  deriving DecidableEq, Repr

/-- parameters and transmission state of one SISO actuator -/
structure Act (α : Type) where
  gaintype : GainType
  biastype : BiasType
  gainprm : List α          -- mjNGAIN entries (the first 9 are read)
  biasprm : List α          -- mjNBIAS entries
  length : α                -- actuator_length[oadr]
  velocity : α              -- actuator_velocity[oadr]
  lr0 : α                   -- actuator_lengthrange[2*oadr]
  lr1 : α
  acc0 : α                  -- actuator_acc0[oadr]

def nth (l : List α) (i : Nat) : Option α := l[i]?

/-- gain of a SISO actuator; `none` if the parameter list is too short -/
def gainOf (a : Act α) : Option α :=
  match a.gaintype with
  | .fixed => nth a.gainprm 0
  | .affine => do
      let g0 ← nth a.gainprm 0; let g1 ← nth a.gainprm 1; let g2 ← nth a.gainprm 2
      pure ((g0 + g1 * a.length) + g2 * a.velocity)
  | .muscle => do
      let p0 ← nth a.gainprm 0; let p1 ← nth a.gainprm 1; let p2 ← nth a.gainprm 2; let p3 ← nth a.gainprm 3
      let p4 ← nth a.gainprm 4; let p5 ← nth a.gainprm 5; let p6 ← nth a.gainprm 6; let p8 ← nth a.gainprm 8
      pure (mju_muscleGain a.length a.velocity a.lr0 a.lr1 a.acc0 p0 p1 p2 p3 p4 p5 p6 p8)
  | .user => some (MjNum.ofInt 1)

def biasOf (a : Act α) : Option α :=
  match a.biastype with
  | .none => some zero
  | .affine => do
      let b0 ← nth a.biasprm 0; let b1 ← nth a.biasprm 1; let b2 ← nth a.biasprm 2
      pure ((b0 + b1 * a.length) + b2 * a.velocity)
  | .muscle => do
      let p0 ← nth a.biasprm 0; let p1 ← nth a.biasprm 1; let p2 ← nth a.biasprm 2; let p3 ← nth a.biasprm 3
      let p5 ← nth a.biasprm 5; let p7 ← nth a.biasprm 7
      pure (mju_muscleBias a.length a.lr0 a.lr1 a.acc0 p0 p1 p2 p3 p5 p7)
  | .user => some zero

/-- `force[oadr] = gain * input; force[oadr] += bias` -/
def rawForce (a : Act α) (input : α) : Option α := do
  let g ← gainOf a
  let b ← biasOf a
  pure (g * input + b)

/-- `mj_actuatorDisabled(m, i)` -/
def actuatorDisabled (group : Int) (disableactuator : Nat) : Bool :=
  if group < 0 ∨ group > 30 then false else disableactuator.testBit group.toNat

/-- the force before the limits: 0 for an actuator in a disabled group -/
def unclampedForce (a : Act α) (input : α) (group : Int) (disableactuator : Nat) : Option α :=
  if actuatorDisabled group disableactuator then some zero else rawForce a input

/-- tendon total-force limit: factor applied to the force of every actuator on a force-limited tendon whose
    total actuator force `total` is outside `[lo, hi]` (nothing happens when `total == 0`) -/
def tendonScale (total lo hi f : α) : α :=
  if MjNum.beq total zero then f
  else if total < lo then f * (lo / total)
  else if hi < total then f * (hi / total)
  else f

def sumList : List α → α
  | [] => zero
  | x :: xs => xs.foldl (· + ·) (zero + x)

/-- `if (forcelimited) f = mju_clip(f, range[0], range[1])` -/
def clampForce (limited : Bool) (f lo hi : α) : α := clampEntry limited f lo hi

/-- the "clamp actuator_force" loop of one SISO actuator: nothing happens unless force-limited, nothing happens
    for an actuator of a disabled group, otherwise the forcerange clamp -/
def clampStage (limited : Bool) (group : Int) (disableactuator : Nat) (f lo hi : α) : α :=
  if actuatorDisabled group disableactuator then f else clampForce limited f lo hi

/-! ### qfrc_actuator = moment' * force -/

/-- `mju_mulMatTVecSparse(res, mat, vec, nr, nc, rownnz, rowadr, colind)`: `rows[i]` lists the stored entries
    `(colind, value)` of row `i` in storage order -/
def mulMatTVecSparse (nc : Nat) (rows : List (List (Fin nc × α))) (vec : List α) : Vector α nc :=
  let step (res : Vector α nc) (rv : List (Fin nc × α) × α) : Vector α nc :=
    if MjNum.beq rv.2 zero then res
    else rv.1.foldl (fun r e => r.set e.1.val (r[e.1.val] + e.2 * rv.2)) res
  (rows.zip vec).foldl step (Vector.replicate nc zero)

/-- joint-level post-processing of one dof: `+= qfrc_gravcomp` when the joint has actgravcomp (and gravity
    compensation is active), then the actfrcrange clamp when the dof is the first dof of a limited joint -/
def jointPost (q : α) (gravcomp : Option α) (limited : Bool) (lo hi : α) : α :=
  let q1 := match gravcomp with
    | none => q
    | some g => q + g
  clampEntry limited q1 lo hi

end MjProof.Actuation
