/-
C27 — executable model of the per-actuator scalar computations of `mj_fwdActuation` (src/engine/engine_forward.c)
over the law-free number class `MjNum α`, in the operation order of the C code (the `Float` instance is compared
bitwise with the engine).  Core Lean only.

Built on the *generated* kernels (c2lean, regenerated from the tree on every run): `Gen.mju_clip`, `Gen.mju_max`,
`Gen.mju_isBad`, `Gen.mju_muscleGain`, `Gen.mju_muscleBias`, `Gen.mju_muscleDynamics`.

Modelled as coded:
  * control stage: local copy of ctrl; `clampVec(ctrl, ctrlrange, ctrllimited)` unless mjDSBL_CLAMPCTRL; then
    "if any control is bad (mju_isBad) all controls become 0";
  * activation derivative for dyntype none / integrator / filter / filterexact / muscle (user: 0 without callback);
  * SISO force law for gaintype fixed / affine / muscle / user-without-callback and biastype none / affine / muscle /
    user-without-callback: `force = gain * input; force += bias`, the input being the (clamped) control when the
    actuator has no activation state and the last activation otherwise;
  * `mj_actuatorDisabled` (group in 0..30 and its bit set in opt.disableactuator): the force stays 0;
  * the tendon total-force limit (forces of the actuators on a force-limited tendon rescaled so that their sum
    meets the violated bound);
  * the forcerange clamp, skipped for actuators of disabled groups (`if (mj_actuatorDisabled(m, i)) continue;`);
  * `qfrc_actuator = moment' * force` as `mju_mulMatTVecSparse` computes it (rows with a zero force skipped,
    `res[colind] += value * force` in storage order);
  * the addition of `qfrc_gravcomp` on joints with actgravcomp and the joint-level clamp
    `clampVec(qfrc_actuator, jnt_actfrcrange, jnt_actfrclimited, njnt, jnt_dofadr)` (first dof of the joint).
Not modelled (the correspondence filters them out / the generator does not produce them): delayed controls
(history buffers), actearly, the setpoint wrapping of servos on ball joints / rotational sites (`wrapPeriod` > 0),
PID / DC-motor / SO3 actuators, plugins, user callbacks, sleeping.
-/
import MjProof.Num
import MjProof.Gen.Kernels

namespace MjProof.Actuation
open MjProof MjProof.Gen

variable {α : Type} [MjNum α]

def zero : α := MjNum.ofInt 0
/-- `mjMINVAL` as the compiler saw it (the generated kernels carry the same literal) -/
def minval : α := MjNum.ofSci 10000000000000001 true 31

/-! ### control stage -/

/-- one entry of `clampVec`: `if (limited[i]) vec[i] = mju_clip(vec[i], range[2i], range[2i+1])` -/
def clampEntry (limited : Bool) (x lo hi : α) : α := if limited then mju_clip x lo hi else x

structure Ctrl (α : Type) where
  value : α
  limited : Bool
  lo : α
  hi : α

/-- the local control vector the force computation uses -/
def ctrlStage (clampDisabled : Bool) (cs : List (Ctrl α)) : List α :=
  let clamped := cs.map (fun c => if clampDisabled then c.value else clampEntry c.limited c.value c.lo c.hi)
  if clamped.any (fun x => mju_isBad x != 0) then clamped.map (fun _ => zero) else clamped

/-! ### activation dynamics -/

inductive DynType | none | integrator | filter | filterexact | muscle | user
  deriving DecidableEq, Repr

/-- `d->act_dot[act_last]` (user dynamics without a callback leaves the zeroed value) -/
def actDot (t : DynType) (dynprm0 dynprm1 dynprm2 ctrl act : α) : α :=
  match t with
  | .none => zero
  | .integrator => ctrl
  | .filter | .filterexact => (ctrl - act) / mju_max minval dynprm0
  | .muscle => mju_muscleDynamics ctrl act dynprm0 dynprm1 dynprm2
  | .user => zero

/-! ### force generation -/

inductive GainType | fixed | affine | muscle | user
  deriving DecidableEq, Repr
inductive BiasType | none | affine | muscle | user
  deriving DecidableEq, Repr

/-- parameters and transmission state of one SISO actuator -/
structure Act (α : Type) where
  gaintype : GainType
  biastype : BiasType
  gainprm : List α          -- mjNGAIN entries (the first 9 are read)
  biasprm : List α          -- mjNBIAS entries
  length : α                -- actuator_length[oadr]
  velocity : α              -- actuator_velocity[oadr]
  lr0 : α                   -- actuator_lengthrange[2*oadr]
  lr1 : α
  acc0 : α                  -- actuator_acc0[oadr]

def nth (l : List α) (i : Nat) : Option α := l[i]?

/-- gain of a SISO actuator; `none` if the parameter list is too short -/
def gainOf (a : Act α) : Option α :=
  match a.gaintype with
  | .fixed => nth a.gainprm 0
  | .affine => do
      let g0 ← nth a.gainprm 0; let g1 ← nth a.gainprm 1; let g2 ← nth a.gainprm 2
      pure ((g0 + g1 * a.length) + g2 * a.velocity)
  | .muscle => do
      let p0 ← nth a.gainprm 0; let p1 ← nth a.gainprm 1; let p2 ← nth a.gainprm 2; let p3 ← nth a.gainprm 3
      let p4 ← nth a.gainprm 4; let p5 ← nth a.gainprm 5; let p6 ← nth a.gainprm 6; let p8 ← nth a.gainprm 8
      pure (mju_muscleGain a.length a.velocity a.lr0 a.lr1 a.acc0 p0 p1 p2 p3 p4 p5 p6 p8)
  | .user => some (MjNum.ofInt 1)

def biasOf (a : Act α) : Option α :=
  match a.biastype with
  | .none => some zero
  | .affine => do
      let b0 ← nth a.biasprm 0; let b1 ← nth a.biasprm 1; let b2 ← nth a.biasprm 2
      pure ((b0 + b1 * a.length) + b2 * a.velocity)
  | .muscle => do
      let p0 ← nth a.biasprm 0; let p1 ← nth a.biasprm 1; let p2 ← nth a.biasprm 2; let p3 ← nth a.biasprm 3
      let p5 ← nth a.biasprm 5; let p7 ← nth a.biasprm 7
      pure (mju_muscleBias a.length a.lr0 a.lr1 a.acc0 p0 p1 p2 p3 p5 p7)
  | .user => some zero

/-- `force[oadr] = gain * input; force[oadr] += bias` -/
def rawForce (a : Act α) (input : α) : Option α := do
  let g ← gainOf a
  let b ← biasOf a
  pure (g * input + b)

/-- `mj_actuatorDisabled(m, i)` -/
def actuatorDisabled (group : Int) (disableactuator : Nat) : Bool :=
  if group < 0 ∨ group > 30 then false else disableactuator.testBit group.toNat

/-- the force before the limits: 0 for an actuator in a disabled group -/
def unclampedForce (a : Act α) (input : α) (group : Int) (disableactuator : Nat) : Option α :=
  if actuatorDisabled group disableactuator then some zero else rawForce a input

/-- tendon total-force limit: factor applied to the force of every actuator on a force-limited tendon whose
    total actuator force `total` is outside `[lo, hi]` (nothing happens when `total == 0`) -/
def tendonScale (total lo hi f : α) : α :=
  if MjNum.beq total zero then f
  else if total < lo then f * (lo / total)
  else if hi < total then f * (hi / total)
  else f

def sumList : List α → α
  | [] => zero
  | x :: xs => xs.foldl (· + ·) (zero + x)

/-- `if (forcelimited) f = mju_clip(f, range[0], range[1])` -/
def clampForce (limited : Bool) (f lo hi : α) : α := clampEntry limited f lo hi

/-- the "clamp actuator_force" loop of one SISO actuator: nothing happens unless force-limited, nothing happens
    for an actuator of a disabled group, otherwise the forcerange clamp -/
def clampStage (limited : Bool) (group : Int) (disableactuator : Nat) (f lo hi : α) : α :=
  if actuatorDisabled group disableactuator then f else clampForce limited f lo hi

/-! ### qfrc_actuator = moment' * force -/

/-- `mju_mulMatTVecSparse(res, mat, vec, nr, nc, rownnz, rowadr, colind)`: `rows[i]` lists the stored entries
    `(colind, value)` of row `i` in storage order -/
def mulMatTVecSparse (nc : Nat) (rows : List (List (Fin nc × α))) (vec : List α) : Vector α nc :=
  let step (res : Vector α nc) (rv : List (Fin nc × α) × α) : Vector α nc :=
    if MjNum.beq rv.2 zero then res
    else rv.1.foldl (fun r e => r.set e.1.val (r[e.1.val] + e.2 * rv.2)) res
  (rows.zip vec).foldl step (Vector.replicate nc zero)

/-- joint-level post-processing of one dof: `+= qfrc_gravcomp` when the joint has actgravcomp (and gravity
    compensation is active), then the actfrcrange clamp when the dof is the first dof of a limited joint -/
def jointPost (q : α) (gravcomp : Option α) (limited : Bool) (lo hi : α) : α :=
  let q1 := match gravcomp with
    | none => q
    | some g => q + g
  clampEntry limited q1 lo hi

end MjProof.Actuation
