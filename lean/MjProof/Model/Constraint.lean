import MjProof.Num
/-
Executable model of the constraint-state update of the engine (C11, C12):

  src/engine/engine_core_constraint.c : mj_constraintUpdate_impl      (`update`, per-row / per-cone laws)
                                        mj_makeImpedance              (`makeImpedance`: efc_R, efc_D, contact.mu)
  src/engine/engine_util_blas.c       : mju_dot / mju_norm            (`sumsq`, `norm`: same accumulation order)
                                        mju_mulMatTVec                (`mulMatTVec`, used by mj_mulJacTVec, dense case)
  src/engine/engine_util_misc.c       : mju_decodePyramid / mju_encodePyramid
  src/engine/engine_solver.c          : projectEllipsoid / projectCone (static; PGS cone projection)

Generic over `MjNum α`: runs on `Float` (bitwise correspondence with the compiled C) and is reasoned
about on `ℝ` (Lemmas/Constraint.lean, Props/C11.lean, Props/C12.lean).  Every arithmetic expression is
written with the association the C compiler uses (left-to-right for `*`,`/`,`+`,`-`; no contraction:
the tree is built with -ffp-contract=off).  Core Lean only.
-/
namespace MjProof.Constraint
open MjProof

variable {α : Type} [MjNum α]

/-! ### literals -/
def zero : α := MjNum.ofInt 0
def one : α := MjNum.ofInt 1
/-- `0.5` -/
def half : α := MjNum.ofSci 5 true 1
/-- `mjMINVAL = 1E-15` -/
def minval : α := MjNum.ofSci 1 true 15

/-- `mju_max(a,b) = a >= b ? a : b` -/
def mjuMax (a b : α) : α := if b ≤ a then a else b
/-- `mju_min(a,b) = a <= b ? a : b` -/
def mjuMin (a b : α) : α := if a ≤ b then a else b

/-! ### constraint types and states (values of mjtConstraint / mjtConstraintState; tied by the driver protocol) -/
def cnstrElliptic : Nat := 7
def stSatisfied : Nat := 0
def stQuadratic : Nat := 1
def stLinearNeg : Nat := 2
def stLinearPos : Nat := 3
def stCone : Nat := 4

/-! ### mju_dot(v,v,n) and mju_norm: four interleaved accumulators, then the 1–3 element tail -/
def sumsqAcc (r0 r1 r2 r3 : α) : List α → α
  | a0 :: a1 :: a2 :: a3 :: rest =>
      sumsqAcc (r0 + a0 * a0) (r1 + a1 * a1) (r2 + a2 * a2) (r3 + a3 * a3) rest
  | [a0, a1, a2] => ((r0 + r2) + (r1 + r3)) + ((a0 * a0 + a1 * a1) + a2 * a2)
  | [a0, a1] => ((r0 + r2) + (r1 + r3)) + (a0 * a0 + a1 * a1)
  | [a0] => ((r0 + r2) + (r1 + r3)) + a0 * a0
  | [] => (r0 + r2) + (r1 + r3)

/-- `mju_dot(v, v, n)` -/
def sumsq (v : List α) : α := sumsqAcc zero zero zero zero v
/-- `mju_norm(v, n)` -/
def norm (v : List α) : α := MjNum.sqrt (sumsq v)

/-! ### scalar rows -/
/-- what one row (or one cone block) contributes: the increments `s += t` in program order, the
    force(s) and the state -/
structure RowOut (α : Type) where
  terms : List α
  force : α
  state : Nat

/-- equality row: `s += 0.5*D*jar*jar`, `force = -D*jar`, QUADRATIC -/
def eqRow (D jar : α) : RowOut α :=
  ⟨[half * D * jar * jar], (-D) * jar, stQuadratic⟩

/-- friction-loss row (dof or tendon) -/
def fricRow (D R floss jar : α) : RowOut α :=
  if jar ≤ (-R) * floss then
    ⟨[(-half) * R * floss * floss - floss * jar], floss, stLinearNeg⟩
  else if R * floss ≤ jar then
    ⟨[(-half) * R * floss * floss + floss * jar], -floss, stLinearPos⟩
  else
    ⟨[half * D * jar * jar], (-D) * jar, stQuadratic⟩

/-- limit / frictionless contact / pyramidal edge: one-sided quadratic -/
def nonnegRow (D jar : α) : RowOut α :=
  if zero ≤ jar then ⟨[], zero, stSatisfied⟩
  else ⟨[half * D * jar * jar], (-D) * jar, stQuadratic⟩

/-! ### elliptic cone block -/
inductive Zone where
  | top | bottom | middle
  deriving DecidableEq, Repr

/-- the zone test of the code, in the order the code performs it -/
def ellZone (mu N T : α) : Zone :=
  if mu * T ≤ N ∨ (T ≤ zero ∧ zero ≤ N) then Zone.top
  else if mu * N + T ≤ zero ∨ (T ≤ zero ∧ N < zero) then Zone.bottom
  else Zone.middle

/-- a tangential row of a cone block: `D[i+j]`, `jar[i+j]` and its friction coefficient `friction[j-1]` -/
structure TRow (α : Type) where
  D : α
  jar : α
  w : α

/-- `U[j] = jar[i+j]*friction[j-1]`, j ≥ 1 -/
def ellUt (ts : List (TRow α)) : List α := ts.map (fun t => t.jar * t.w)

/-- `Dm = D[i]/(mu*mu*(1+mu*mu))` -/
def ellDm (D0 mu : α) : α := D0 / (mu * mu * (one + mu * mu))

/-- normal force in the middle zone: `-Dm*NmT*mu` -/
def midForceN (Dm mu NmT : α) : α := (-Dm) * NmT * mu
/-- tangential force in the middle zone: `-force[i]/T*U[j]*friction[j-1]` -/
def midForceT (f0 T u w : α) : α := (-f0) / T * u * w

/-- index object of a cone row: `none` = normal row, `some (k,u,w)` = k-th tangential row with
    `u = U[k]`, `w = friction[k-1]` -/
abbrev HIdx (α : Type) := Option (Nat × α × α)

/-- entry (a,b) of the cone Hessian exactly as the code leaves it in `H` (upper part computed, lower
    part copied from the upper part) -/
def hessEntry (Dm mu scl1 scl2 scl3 : α) : HIdx α → HIdx α → α
  | none, none => one * (Dm * mu * mu)
  | none, some (_, u, w) => scl1 * u * (Dm * mu * w)
  | some (_, u, w), none => scl1 * u * (Dm * mu * w)
  | some (k, uk, wk), some (j, uj, wj) =>
      if k < j then scl2 * uj * uk * (Dm * wk * wj)
      else if j < k then scl2 * uk * uj * (Dm * wj * wk)
      else (scl2 * uj * uk + scl3) * (Dm * wk * wj)

/-- `scl = -mu/T` (first row) -/
def hessScl1 (mu T : α) : α := (-mu) / T
/-- `scl = mu*N/(T*T*T)` (upper block) -/
def hessScl2 (mu N T : α) : α := mu * N / (T * T * T)
/-- `scl = mu*mu - mu*N/T` (diagonal) -/
def hessScl3 (mu N T : α) : α := mu * mu - mu * N / T

/-- the index objects of the rows of a cone block, in row order -/
def hessIdx (ts : List (TRow α)) : List (HIdx α) :=
  none :: (ts.zipIdx.map (fun p => some (p.2, p.1.jar * p.1.w, p.1.w)))

/-- the `dim × dim` block written to `contact.H` (row-major) in the middle zone -/
def coneHess (Dm mu N T : α) (ts : List (TRow α)) : List α :=
  (hessIdx ts).flatMap (fun a => (hessIdx ts).map (fun b =>
    hessEntry Dm mu (hessScl1 mu T) (hessScl2 mu N T) (hessScl3 mu N T) a b))

structure ConeOut (α : Type) where
  terms : List α
  force : List α
  state : Nat
  hess : Option (List α)

/-- one elliptic contact: rows `i .. i+dim-1`: the normal row `(D0, jar0)`, the regularised cone
    friction `mu` and the `dim-1` tangential rows `ts`. -/
def ellBlock (D0 jar0 mu : α) (ts : List (TRow α)) : ConeOut α :=
  let N := jar0 * mu
  let T := norm (ellUt ts)
  match ellZone mu N T with
  | Zone.top => ⟨[], zero :: ts.map (fun _ => zero), stSatisfied, none⟩
  | Zone.bottom =>
      ⟨(half * D0 * jar0 * jar0) :: ts.map (fun t => half * t.D * t.jar * t.jar),
       ((-D0) * jar0) :: ts.map (fun t => (-t.D) * t.jar), stQuadratic, none⟩
  | Zone.middle =>
      let Dm := ellDm D0 mu
      let NmT := N - mu * T
      let f0 := midForceN Dm mu NmT
      ⟨[half * Dm * NmT * NmT],
       f0 :: ts.map (fun t => midForceT f0 T (t.jar * t.w) t.w),
       stCone, some (coneHess Dm mu N T ts)⟩

/-! ### the whole update -/
structure Row (α : Type) where
  D : α
  R : α
  floss : α
  jar : α
  type : Nat
  id : Nat

structure Contact (α : Type) where
  dim : Nat
  mu : α
  friction : List α

structure Out (α : Type) where
  cost : α
  force : List α
  state : List Nat
  /-- `contact[k].H[0 .. dim*dim)` if the call wrote it -/
  hess : List (Option (List α))

def addTerms (s : α) (ts : List α) : α := ts.foldl (fun a t => a + t) s

def setAt {β : Type} (l : List β) (k : Nat) (x : β) : List β := l.set k x

/-- the row loop of `mj_constraintUpdate_impl` from row `i` on; `none` = the C code would read or
    write outside its arrays (contact id out of range, `dim` outside 1..6, cone block past `nefc`,
    fewer than `dim-1` friction coefficients) -/
def go (ne nf : Nat) (flgH : Bool) (cons : List (Contact α)) :
    (i : Nat) → (rows : List (Row α)) → (s : α) → (frev : List α) → (srev : List Nat) →
    (hs : List (Option (List α))) → Option (Out α)
  | _, [], s, frev, srev, hs => some ⟨s, frev.reverse, srev.reverse, hs⟩
  | i, r :: rest, s, frev, srev, hs =>
    if i < ne then
      let o := eqRow r.D r.jar
      go ne nf flgH cons (i + 1) rest (addTerms s o.terms) (o.force :: frev) (o.state :: srev) hs
    else if i < ne + nf then
      let o := fricRow r.D r.R r.floss r.jar
      go ne nf flgH cons (i + 1) rest (addTerms s o.terms) (o.force :: frev) (o.state :: srev) hs
    else if r.type ≠ cnstrElliptic then
      let o := nonnegRow r.D r.jar
      go ne nf flgH cons (i + 1) rest (addTerms s o.terms) (o.force :: frev) (o.state :: srev) hs
    else
      match cons[r.id]? with
      | none => none
      | some c =>
        if c.dim = 0 ∨ 6 < c.dim ∨ rest.length < c.dim - 1 ∨ c.friction.length < c.dim - 1 then none
        else
          let ts := List.zipWith (fun (b : Row α) f => (⟨b.D, b.jar, f⟩ : TRow α))
            (rest.take (c.dim - 1)) (c.friction.take (c.dim - 1))
          let o := ellBlock r.D r.jar c.mu ts
          let hs' := match flgH, o.hess with
            | true, some h => setAt hs r.id (some h)
            | _, _ => hs
          go ne nf flgH cons (i + c.dim) (rest.drop (c.dim - 1)) (addTerms s o.terms)
            (o.force.reverse ++ frev) (List.replicate c.dim o.state ++ srev) hs'
termination_by _ rows => rows.length
decreasing_by
  all_goals simp only [List.length_cons, List.length_drop]
  all_goals omega

/-- `mj_constraintUpdate_impl(ne, nf, nefc, D, R, floss, jar, type, id, contact, state, force, cost, flg)`;
    with `nefc = 0` the function only clears the cost. -/
def update (ne nf : Nat) (flgH : Bool) (rows : List (Row α)) (cons : List (Contact α)) : Option (Out α) :=
  go ne nf flgH cons 0 rows zero [] [] (cons.map (fun _ => none))

/-! ### mj_makeImpedance: regularisers of the constraint rows (C12)

`src/engine/engine_core_constraint.c : mj_makeImpedance` — the value of `efc_R` that the first loop
assigns (`impR`), the second loop that adjusts `R` in the friction dimensions of frictional contacts
and sets `contact.mu` (`impEll`, `impPyr`, `impGo`), and the loop `D = 1/R` (`makeImpedance`).  The
impedance `imp` itself (getsolparam / getimpedance) is an input of the model: it is read back from
`efc_KBIP[4*i+2]`, where the function stores it.  `efc_KBIP` and the final adjustment of `efc_diagA`
are not modelled. -/
def cnstrPyramidal : Nat := 6

/-- `R[i+j] = mju_max(mjMINVAL, (1-imp)*d->efc_diagA[i+j]/imp)` -/
def impR (diagA imp : α) : α := mjuMax minval ((one - imp) * diagA / imp)

/-- `R[i+1] = R[i]/mju_max(mjMINVAL, m->opt.impratio)` -/
def impR1 (R0 impratio : α) : α := R0 / mjuMax minval impratio

/-- `d->contact[id].mu = friction[0] * mju_sqrt(R[i+1]/R[i])` -/
def impMu (R0 impratio f0 : α) : α := f0 * MjNum.sqrt (impR1 R0 impratio / R0)

/-- `R[i+j+1] = R[i+1]*friction[0]*friction[0]/(friction[j]*friction[j])`, j ≥ 1 -/
def impRj (R1 f0 fj : α) : α := R1 * f0 * f0 / (fj * fj)

/-- what the second loop does for one frictional contact: the new `R` of the rows of the contact
    (in row order) and `contact.mu` -/
structure ImpCon (α : Type) where
  R : List α
  mu : α

/-- elliptic contact with `R[i] = R0`, `friction[0] = f0`, `friction[1 .. dim-2] = fr` (`dim = fr.length + 2`) -/
def impEll (R0 impratio f0 : α) (fr : List α) : ImpCon α :=
  ⟨R0 :: impR1 R0 impratio :: fr.map (fun fj => impRj (impR1 R0 impratio) f0 fj), impMu R0 impratio f0⟩

/-- pyramidal contact: `Rpy = 2*mu*mu*R[i]` assigned to all `2*(dim-1)` rows -/
def impPyr (R0 impratio f0 : α) (dim : Nat) : ImpCon α :=
  let mu := impMu R0 impratio f0
  ⟨List.replicate (2 * (dim - 1)) (MjNum.ofInt 2 * mu * mu * R0), mu⟩

/-- a row as `mj_makeImpedance` sees it -/
structure IRow (α : Type) where
  diagA : α
  imp : α
  type : Nat
  id : Nat

/-- the second loop from some row on: `rows` = (R after the first loop, type, id).  `none` = the C
    code would index outside its arrays or not terminate (contact id out of range, `dim` outside
    2..6, block past `nefc`, no friction coefficients). -/
def impGo (impratio : α) (cons : List (Contact α)) :
    (rows : List (α × Nat × Nat)) → (mus : List (Option α)) → Option (List α × List (Option α))
  | [], mus => some ([], mus)
  | (R0, ty, id) :: rest, mus =>
    if ty = cnstrPyramidal ∨ ty = cnstrElliptic then
      match cons[id]? with
      | none => none
      | some c =>
        let nrows := if ty = cnstrElliptic then c.dim else 2 * (c.dim - 1)
        match c.friction with
        | [] => none
        | f0 :: ftail =>
          if c.dim < 2 ∨ 6 < c.dim ∨ rest.length < nrows - 1 ∨ ftail.length < c.dim - 2 then none
          else
            let o := if ty = cnstrElliptic then impEll R0 impratio f0 (ftail.take (c.dim - 2))
                     else impPyr R0 impratio f0 c.dim
            match impGo impratio cons (rest.drop (nrows - 1)) (setAt mus id (some o.mu)) with
            | none => none
            | some (Rs, mus') => some (o.R ++ Rs, mus')
    else
      match impGo impratio cons rest mus with
      | none => none
      | some (Rs, mus') => some (R0 :: Rs, mus')
termination_by rows => rows.length
decreasing_by
  all_goals simp only [List.length_cons, List.length_drop]
  all_goals omega

structure ImpOut (α : Type) where
  R : List α
  D : List α
  /-- `contact[k].mu` if the call wrote it -/
  mu : List (Option α)

/-- `mj_makeImpedance`: `efc_R`, `efc_D` and `contact.mu`; `nefnf = d->ne + d->nf` -/
def makeImpedance (nefnf : Nat) (impratio : α) (rows : List (IRow α)) (cons : List (Contact α)) :
    Option (ImpOut α) :=
  let R1 := rows.map (fun r => (impR r.diagA r.imp, r.type, r.id))
  match impGo impratio cons (R1.drop nefnf) (cons.map (fun _ => none)) with
  | none => none
  | some (Rs, mus) =>
    let R := (R1.take nefnf).map (fun r => r.1) ++ Rs
    some ⟨R, R.map (fun r => one / r), mus⟩

/-! ### mju_mulMatTVec (dense `mj_mulJacTVec`): `res = 0; for r: if vec[r] != 0: res += mat[r,:]*vec[r]` -/
def addToScl (res row : List α) (scl : α) : List α := List.zipWith (fun x m => x + m * scl) res row

def mulMatTVec (nc : Nat) (mat : List (List α)) (vec : List α) : List α :=
  (mat.zip vec).foldl (fun res p => if MjNum.beq p.2 zero then res else addToScl res p.1 p.2)
    (List.replicate nc zero)

/-! ### pyramid encoding -/
def pairs : List α → List (α × α)
  | a :: b :: rest => (a, b) :: pairs rest
  | _ => []

/-- `mju_decodePyramid(force, pyramid, mu, dim)`; `none` = arrays too short for `dim` -/
def decodePyramid (pyr mu : List α) (dim : Nat) : Option (List α) :=
  if dim = 0 then none
  else if dim = 1 then pyr.head?.map (fun p => [p])
  else if pyr.length < 2 * (dim - 1) ∨ mu.length < dim - 1 then none
  else
    let p := pyr.take (2 * (dim - 1))
    some (p.foldl (fun a x => a + x) zero ::
          List.zipWith (fun (e : α × α) m => (e.1 - e.2) * m) (pairs p) (mu.take (dim - 1)))

/-- `mju_encodePyramid(pyramid, force, mu, dim)` for `dim ≥ 2` -/
def encodePyramid (force mu : List α) (dim : Nat) : Option (List α) :=
  match force with
  | [] => none
  | f0 :: ft =>
    if dim < 2 ∨ ft.length < dim - 1 ∨ mu.length < dim - 1 then none
    else
      let a := f0 / MjNum.ofInt (Int.ofNat (dim - 1))
      some ((List.zipWith (fun f m =>
        let b := mjuMin a (f / m)
        [half * (a + b), half * (a - b)]) (ft.take (dim - 1)) (mu.take (dim - 1))).flatten)

/-! ### PGS cone projection -/
/-- `projectEllipsoid(friction, normal, mu, dim, feasible)` -/
def projectEllipsoid (ft : List α) (normal : α) (mu : List α) (feasible : Bool) : List α :=
  let s := (List.zipWith (fun f m => f * f / (m * m)) ft mu).foldl (fun a x => a + x) zero
  let normal2 := normal * normal
  if !feasible || decide (normal2 < s) then
    let scl := MjNum.sqrt (normal2 / mjuMax minval s)
    ft.map (fun f => f * scl)
  else ft

/-- `projectCone(force, mu, dim, type)`; `mu.length ≥ dim-1` is checked by the caller -/
def projectCone (force mu : List α) (elliptic : Bool) : List α :=
  match force with
  | [] => []
  | f0 :: ft =>
    if elliptic then
      if f0 < zero then zero :: ft.map (fun _ => zero)
      else f0 :: projectEllipsoid ft f0 mu true
    else
      (if f0 < zero then zero else f0) :: ft

end MjProof.Constraint
