/-
Model of `src/user/user_threadpool.{h,cc}` (class `mujoco::user::ThreadPool`) in the usage pattern of the model
compiler (`mjCModel::CompileMeshesAndTextures`, `LengthRange`):

    ThreadPool pool(N);  for i < T: pool.Schedule(task_i);  pool.WaitCount(T);  ~ThreadPool()

Core Lean only.  All shared state of the class (`queue_`, `ctr_`, the two condition variables) is accessed under
the mutex `m_`, so one transition = one critical section (from acquiring `m_` to releasing it, or to blocking in a
condition-variable wait, which releases it atomically); the scheduling points of a thread are its lock requests,
the task body, `join`, and the wake-up from a wait (which must re-acquire `m_` and re-check the predicate).

  main  `sched i`      Schedule: lock; queue_.push(task i); cv_in_.notify_one(); unlock
        `wait`/`waitWoken`   WaitCount(T): lock; cv_ext_.wait(lock, ctr_ >= T)  — passes, or blocks (`waitBlocked`)
        `dtor`         ~ThreadPool: lock; push one nullptr per thread; cv_in_.notify_all(); unlock
        `join k`       threads_[k].join()
  worker `fetch`/`woken`    lock; cv_in_.wait(lock, !queue_.empty()) — blocks (`blocked`), or: pop the front;
                            cv_in_.notify_one(); unlock  → `run t` | `exitInc` (nullptr)
         `run t`       task()                                       (ghost: execCnt t += 1, execBy t := worker)
         `fin`         lock; ++ctr_; cv_ext_.notify_one(); unlock   → `fetch`
         `exitInc`     lock; ++ctr_; cv_ext_.notify_one(); unlock; break  → `exited`

`notify_one` wakes ONE waiter chosen by the environment (`pick`), none only if nobody waits; `notify_all` wakes all.
Spurious wake-ups (`Act.spurious`, `Act.spuriousMain`) are extra transitions of the full relation `Step`; the
relation without them is `StepNS`.  Workers are thread ids `1..N`, the scheduling thread is 0.

Ghost fields (not in the source): `nsched` (tasks pushed), `npop` (tasks popped), `takenBy`, `execCnt`, `execBy`,
`finished`, `nfin`, `nexit`, `nsent` (sentinels in the queue).
-/
namespace MjProof.UserPool

/-- program counter of a worker thread -/
inductive WPc where
  | fetch | blocked | woken | run (t : Nat) | fin (t : Nat) | exitInc | exited
  deriving DecidableEq, Repr

/-- program counter of the scheduling thread -/
inductive MPc where
  | sched (i : Nat) | wait | waitBlocked | waitWoken | dtor | join (k : Nat) | done
  deriving DecidableEq, Repr

structure State where
  N : Nat                      -- number of worker threads
  T : Nat                      -- number of tasks of this use
  mpc : MPc
  w : Nat → WPc                -- workers by thread id 1..N
  queue : List (Option Nat)    -- `queue_` (`none` = nullptr)
  ctr : Nat                    -- `ctr_`
  -- ghost
  nsched : Nat
  npop : Nat
  takenBy : Nat → Nat
  execCnt : Nat → Nat
  execBy : Nat → Nat
  finished : Nat → Bool
  nfin : Nat
  nexit : Nat

def init (N T : Nat) : State :=
  { N := N, T := T, mpc := if T = 0 then .wait else .sched 0, w := fun _ => .fetch, queue := [], ctr := 0,
    nsched := 0, npop := 0, takenBy := fun _ => 0, execCnt := fun _ => 0, execBy := fun _ => 0,
    finished := fun _ => false, nfin := 0, nexit := 0 }

inductive Act where
  | main                          -- the scheduling thread performs its next step
  | worker (i : Nat)              -- worker `i` performs its next step
  | spurious (i : Nat)            -- spurious wake-up of worker `i` blocked in `cv_in_.wait`
  | spuriousMain                  -- spurious wake-up of the scheduling thread blocked in `cv_ext_.wait`
  deriving DecidableEq, Repr

def setW (s : State) (i : Nat) (p : WPc) : State := { s with w := fun j => if j = i then p else s.w j }

/-- is worker `i` (1 ≤ i ≤ N) blocked in `cv_in_.wait`? -/
def isBlocked (s : State) (i : Nat) : Bool := decide (1 ≤ i ∧ i ≤ s.N) && (s.w i == .blocked)

/-- the least blocked worker id in `1..n`, if any -/
def firstBlocked (s : State) : Nat → Option Nat
  | 0 => none
  | n + 1 => match firstBlocked s n with
    | some i => some i
    | none => if isBlocked s (n + 1) then some (n + 1) else none

/-- `cv_in_.notify_one()`: the environment's choice `pick` is honoured when it names a blocked worker; otherwise the
    least blocked worker is woken; nobody if nobody is blocked.  Returns the new state and who was woken. -/
def notifyIn (s : State) (pick : Option Nat) : State × Option Nat :=
  match pick with
  | some p => if isBlocked s p then (setW s p .woken, some p) else
      match firstBlocked s s.N with
      | some i => (setW s i .woken, some i)
      | none => (s, none)
  | none =>
      match firstBlocked s s.N with
      | some i => (setW s i .woken, some i)
      | none => (s, none)

/-- `cv_in_.notify_all()` -/
def notifyAllIn (s : State) : State :=
  { s with w := fun j => if isBlocked s j then .woken else s.w j }

/-- `cv_ext_.notify_one()`: the only possible waiter is the scheduling thread -/
def notifyExt (s : State) : State × Bool :=
  if s.mpc = .waitBlocked then ({ s with mpc := .waitWoken }, true) else (s, false)

/-- observable events of one step (what the instrumented real code records) -/
inductive Ev where
  | lock (tid : Nat)
  | unlock (tid : Nat)
  | waitPass (tid : Nat) (cv : Nat)          -- predicate true: the wait returns holding the mutex
  | waitBlock (tid : Nat) (cv : Nat)         -- predicate false: mutex released, thread blocked
  | notifyOne (tid : Nat) (cv : Nat) (woken : Option Nat)
  | notifyAll (tid : Nat) (cv : Nat) (nwoken : Nat)
  | exec (tid : Nat) (task : Nat)
  | join (k : Nat)
  | exit (tid : Nat)
  | spurious (tid : Nat)
  | disabled (tid : Nat)                      -- the thread was granted a step but is blocked / finished
  deriving DecidableEq, Repr

def countBlocked (s : State) : Nat → Nat
  | 0 => 0
  | n + 1 => countBlocked s n + (if isBlocked s (n + 1) then 1 else 0)

/-- one step of the scheduling thread; `none` when it is not enabled -/
def stepMain (s : State) (pick : Option Nat) : Option (State × List Ev) :=
  match s.mpc with
  | .sched i =>
    let s1 := { s with queue := s.queue ++ [some i], nsched := s.nsched + 1,
                       mpc := if i + 1 < s.T then .sched (i + 1) else .wait }
    let r := notifyIn s1 pick
    some (r.1, [.lock 0, .notifyOne 0 0 r.2, .unlock 0])
  | .wait | .waitWoken =>
    if s.T ≤ s.ctr then some ({ s with mpc := .dtor }, [.lock 0, .waitPass 0 1, .unlock 0])
    else some ({ s with mpc := .waitBlocked }, [.lock 0, .waitBlock 0 1])
  | .waitBlocked => none
  | .dtor =>
    let s1 := { s with queue := s.queue ++ List.replicate s.N none }
    let nb := countBlocked s1 s1.N
    let s2 := notifyAllIn s1
    some ({ s2 with mpc := if s.N = 0 then .done else .join 0 }, [.lock 0, .notifyAll 0 0 nb, .unlock 0])
  | .join k =>
    if s.w (k + 1) = .exited then
      some ({ s with mpc := if k + 1 < s.N then .join (k + 1) else .done }, [.join k])
    else none
  | .done => none

/-- one step of worker `i`; `none` when it is not enabled -/
def stepWorker (s : State) (i : Nat) (pick : Option Nat) : Option (State × List Ev) :=
  if ¬ (1 ≤ i ∧ i ≤ s.N) then none else
  match s.w i with
  | .fetch | .woken =>
    match s.queue with
    | [] => some (setW s i .blocked, [.lock i, .waitBlock i 0])
    | item :: rest =>
      let s1 := { s with queue := rest }
      match item with
      | some t =>
        let s2 := { (setW s1 i (.run t)) with npop := s.npop + 1, takenBy := fun j => if j = t then i else s.takenBy j }
        let r := notifyIn s2 pick
        some (r.1, [.lock i, .waitPass i 0, .notifyOne i 0 r.2, .unlock i])
      | none =>
        let s2 := setW s1 i .exitInc
        let r := notifyIn s2 pick
        some (r.1, [.lock i, .waitPass i 0, .notifyOne i 0 r.2, .unlock i])
  | .blocked => none
  | .run t =>
    some ({ (setW s i (.fin t)) with execCnt := fun j => if j = t then s.execCnt j + 1 else s.execCnt j,
                                     execBy := fun j => if j = t then i else s.execBy j },
          [.exec i t])
  | .fin t =>
    let s1 := { (setW s i .fetch) with ctr := s.ctr + 1, nfin := s.nfin + 1,
                                       finished := fun j => if j = t then true else s.finished j }
    let r := notifyExt s1
    some (r.1, [.lock i, .notifyOne i 1 (if r.2 then some 0 else none), .unlock i])
  | .exitInc =>
    let s1 := { (setW s i .exited) with ctr := s.ctr + 1, nexit := s.nexit + 1 }
    let r := notifyExt s1
    some (r.1, [.lock i, .notifyOne i 1 (if r.2 then some 0 else none), .unlock i, .exit i])
  | .exited => none

/-- the step function: an action and the environment's choice for a `cv_in_.notify_one()` occurring in it -/
def step (s : State) (a : Act) (pick : Option Nat) : Option (State × List Ev) :=
  match a with
  | .main => stepMain s pick
  | .worker i => stepWorker s i pick
  | .spurious i => if isBlocked s i then some (setW s i .woken, [.spurious i]) else none
  | .spuriousMain => if s.mpc = .waitBlocked then some ({ s with mpc := .waitWoken }, [.spurious 0]) else none

/-- transition relation with spurious wake-ups -/
def Step (s s' : State) : Prop := ∃ a pick evs, step s a pick = some (s', evs)

/-- transition relation without spurious wake-ups -/
def StepNS (s s' : State) : Prop :=
  ∃ a pick evs, (a = .main ∨ ∃ i, a = .worker i) ∧ step s a pick = some (s', evs)

inductive Reach (N T : Nat) : State → Prop where
  | init : Reach N T (init N T)
  | step {s s'} : Reach N T s → Step s s' → Reach N T s'

inductive ReachNS (N T : Nat) : State → Prop where
  | init : ReachNS N T (init N T)
  | step {s s'} : ReachNS N T s → StepNS s s' → ReachNS N T s'

/-! ### asset tasks: each task writes only its own slot -/

/-- running the task list `order` over an asset array: task `i` replaces slot `i` by `f i (slot i)` -/
def runTasks {α : Type} (f : Nat → α → α) : List Nat → (Nat → α) → (Nat → α)
  | [], a => a
  | i :: rest, a => runTasks f rest (fun j => if j = i then f i (a i) else a j)

end MjProof.UserPool
