import MjProof.Num
/-
Executable model of the sleeping-island bookkeeping of `src/engine/engine_sleep.c` and of the part of
`mj_advance` (`src/engine/engine_forward.c`) that consumes it (core Lean only).

  mj_sleepCycle        `sleepCycle`      walk of the cycle through `i`, smallest index (‑1 on every error exit)
  mj_wakeIsland        `wakeIsland`      awake tree: `min(wakeval, cur)`; sleeping tree: do/while walk that
                                         overwrites the visited entries with `wakeval`
  mj_sleepTrees        `sleepTrees`      link `tree[0..n)` into a cycle (`tree[n-1] -> tree[0]`), zero qvel/qacc
  mj_sleep             `sleep`           countdown of the awake trees, islands whose trees are all at ‑1 and
                                         ready unconstrained trees are put to sleep
  treeCanSleep         `treeCanSleep`    decision over the four facts the C code reads
  mj_wake              `wake`            user-perturbation sweep (and the "sleep disabled" branch)
  mj_wakeCollision     `wakeCollision`   per contact decision on the *stale* `tree_awake` array
  mj_updateSleepInit   `updateSleepInit` tree_awake, body_awake and the three awake index lists
  mj_advance           `advance`         mj_sleep; refresh of the lists; velocity and position update over
                                         the awake index lists (`mju_addToSclInd`, `mj_integratePosInd`)

Conventions.  `tree_asleep` is a `Vector Int ntree` (`TA n`): `< 0` awake (countdown, ‑1 = ready to sleep,
`kAwake = -(1+mjMINAWAKE)` = fully awake), `>= 0` = index of the next tree of the sleeping cycle.  C `int`s
are unbounded `Int`s (every stored value is a tree index or lies in [kAwake, -1]).  Indices that the C code
bounds-checks are `Int`s and the check is modelled; indices that the C code dereferences unchecked are
typed `Fin _`, i.e. the caller supplies the bound (the drivers reject lines that violate it, the C harness
never passes such an index to the real function either).  The `mjERROR(..)  // SHOULD NOT OCCUR` exits are
explicit results carrying the array as it is at that point (the default error handler aborts there).
The two loops that walk a cycle carry the C code's own iteration bounds (`count > ntree`,
`nwoke < ntree`) as their termination measure — there is no extra fuel; `Props/C18` proves that under the
cycle invariant those bounds are never what stops the walk.
Not modelled: the log message of mj_wakeIsland/mj_sleepTrees (`woke_trees[1024]` is only read by it),
mj_wakeTendon / mj_wakeEquality / mj_sleepState (model-dependent decision tables; exercised by the oracle
only), flex contacts in mj_wakeCollision.
-/
namespace MjProof.Sleep

/-- `mjMINAWAKE` (include/mujoco/mjmodel.h); tied to the header by the `const` op of the correspondence. -/
def minAwake : Int := 10
/-- `kAwake = -(1+mjMINAWAKE)`: tree_asleep value of a fully awake tree. -/
def kAwake : Int := -(1 + minAwake)

/-- `mjData.tree_asleep` for a model with `n` trees. -/
abbrev TA (n : Nat) := Vector Int n

/-! ## mj_sleepCycle -/

/-- Body of the `do { … } while (current != i)` loop of `mj_sleepCycle`; `count` is the C counter, the
    measure `ntree + 1 - count` is the C code's own `if (count > ntree) return -1`. -/
def sleepCycleGo {n : Nat} (ta : TA n) (i : Nat) (smallest : Nat) (current : Fin n) (count : Nat) : Int :=
  if count > n then -1
  else
    let next := ta[current]
    if h : 0 ≤ next ∧ next < (n : Int) then
      let nx : Fin n := ⟨next.toNat, by omega⟩
      let smallest' := if nx.val < smallest then nx.val else smallest
      if nx.val ≠ i then sleepCycleGo ta i smallest' nx (count + 1) else (smallest' : Int)
    else -1
termination_by n + 1 - count
decreasing_by omega

/-- `mj_sleepCycle(tree_asleep, ntree, i)`. -/
def sleepCycle {n : Nat} (ta : TA n) (i : Int) : Int :=
  if h : 0 ≤ i ∧ i < (n : Int) then sleepCycleGo ta i.toNat i.toNat ⟨i.toNat, by omega⟩ 0 else -1

/-! ## mj_wakeIsland -/

inductive WakeErr where
  | invalidTree   -- "invalid tree %d"
  | invalidNext   -- "invalid sleep state index %d when waking tree %d"
  | notCycle      -- "tree %d is not in a cycle"
  | bothAsleep    -- mj_wakeCollision: "contact between sleeping bodies %d and %d"
  deriving DecidableEq, Repr

inductive WakeRes where
  | ok (nwoke : Nat)
  | err (e : WakeErr)
  deriving DecidableEq, Repr

/-- The `do { … } while (current != i && nwoke < ntree)` loop of `mj_wakeIsland` (entered with the
    sleeping tree `start = i`); measure `ntree - nwoke` is the loop's own second conjunct. -/
def wakeLoop {n : Nat} (start : Nat) (wakeval : Int) (ta : TA n) (current : Fin n) (nwoke : Nat) :
    TA n × WakeRes :=
  let next := ta[current]
  if h : 0 ≤ next ∧ next < (n : Int) then
    let ta' := ta.set current wakeval
    let nx : Fin n := ⟨next.toNat, by omega⟩
    if nx.val ≠ start ∧ nwoke + 1 < n then wakeLoop start wakeval ta' nx (nwoke + 1)
    else if nx.val ≠ start then (ta', .err .notCycle) else (ta', .ok (nwoke + 1))
  else (ta, .err .invalidNext)
termination_by n - nwoke
decreasing_by omega

/-- `mj_wakeIsland(tree_asleep, ntree, i, wakeval, reason, time)`. -/
def wakeIsland {n : Nat} (ta : TA n) (i : Int) (wakeval : Int) : TA n × WakeRes :=
  if h : 0 ≤ i ∧ i < (n : Int) then
    let fi : Fin n := ⟨i.toNat, by omega⟩
    let v := ta[fi]
    if v < 0 then (ta.set fi (if wakeval < v then wakeval else v), .ok 0)   -- mjMIN(wakeval, asleep_val)
    else wakeLoop fi.val wakeval ta fi 0
  else (ta, .err .invalidTree)

/-! ## treeCanSleep -/

/-- The facts `treeCanSleep(m, d, i, tol)` reads about tree `i`. -/
structure TreeFacts where
  policyNever : Bool   -- tree_sleep_policy ∈ {mjSLEEP_NEVER, mjSLEEP_AUTO_NEVER}
  xfrcZero : Bool      -- xfrc_applied of the tree's bodies is bytewise zero
  qfrcZero : Bool      -- qfrc_applied of the tree's dofs is bytewise zero
  velZero : Bool       -- qvel of the tree's dofs is bytewise zero
  velSmall : Bool      -- max_i dof_length[i]*|qvel[i]| < tol   (`isSmaller`)
  deriving Repr

/-- `treeCanSleep(m, d, i, tol)`; `tolNonzero` is the C test `if (tol)`. -/
def treeCanSleep (f : TreeFacts) (tolNonzero : Bool) : Bool :=
  if f.policyNever then false
  else if !f.xfrcZero then false
  else if !f.qfrcZero then false
  else if tolNonzero then f.velSmall else f.velZero

/-- `isSmaller(vec, weight, n, tol)`: `max = mju_max(max, weight[i]*mju_abs(vec[i])); if (max >= tol) return 0;`
    with `mju_max(a,b) = a >= b ? a : b`. -/
def isSmallerGo {α : Type} [MjNum α] (tol : α) : α → List (α × α) → Bool
  | _, [] => true
  | mx, (v, w) :: r =>
    let x := w * MjNum.abs v
    let mx' := if mx ≥ x then mx else x
    if mx' ≥ tol then false else isSmallerGo tol mx' r

def isSmaller {α : Type} [MjNum α] (vec weight : List α) (tol : α) : Bool :=
  isSmallerGo tol (MjNum.ofInt 0) (vec.zip weight)

/-! ## dynamic state touched by sleeping: tree_asleep, qvel, qacc -/

/-- `tree_dofadr`, `tree_dofnum` with the bound the C code relies on. -/
structure TreeDofs (n nv : Nat) where
  adr : Vector Nat n
  num : Vector Nat n
  bound : ∀ t : Fin n, adr[t] + num[t] ≤ nv

structure St (n nv : Nat) (V : Type) where
  ta : TA n
  qvel : Vector V nv
  qacc : Vector V nv

/-- `mju_zero(vec + adr, num)`. -/
def zeroRange {V : Type} {nv : Nat} (zero : V) (v : Vector V nv) (adr num : Nat) : Vector V nv :=
  Vector.ofFn fun i : Fin nv => if adr ≤ i.val ∧ i.val < adr + num then zero else v[i]

inductive SleepErr where
  | alreadyAsleep      -- mj_sleepTrees: "trying to sleep tree %d which is already asleep"
  | notReady           -- mj_sleepTrees: "trying to sleep tree %d which is not ready to sleep"
  | sleepingInIsland   -- mj_sleep: "found sleeping tree %d in island %d"
  deriving DecidableEq, Repr

/-! ## mj_sleepTrees -/

/-- Iterations `i, i+1, …` of the loop of `mj_sleepTrees`; `first = tree[0]`, the list is `tree[i..n)`. -/
def sleepTreesGo {n nv : Nat} {V : Type} (zero : V) (td : TreeDofs n nv) (first : Fin n) :
    List (Fin n) → St n nv V → St n nv V × Option SleepErr
  | [], s => (s, none)
  | cur :: rest, s =>
    let next : Fin n := match rest with        -- (i == n-1) ? tree[0] : tree[i+1]
      | [] => first
      | nx :: _ => nx
    if s.ta[cur] = -1 then
      sleepTreesGo zero td first rest
        { ta := s.ta.set cur (next.val : Int)
          qvel := zeroRange zero s.qvel td.adr[cur] td.num[cur]
          qacc := zeroRange zero s.qacc td.adr[cur] td.num[cur] }
    else if s.ta[cur] ≥ 0 then (s, some .alreadyAsleep)
    else (s, some .notReady)

/-- `mj_sleepTrees(m, d, tree, n)`. -/
def sleepTrees {n nv : Nat} {V : Type} (zero : V) (td : TreeDofs n nv) (l : List (Fin n)) (s : St n nv V) :
    St n nv V × Option SleepErr :=
  match l with
  | [] => (s, none)
  | first :: _ => sleepTreesGo zero td first l s

/-! ## mj_sleep -/

structure SleepIn (n : Nat) where
  enabled : Bool                   -- mjENABLED(mjENBL_SLEEP)
  nefc : Nat                       -- d->nefc
  can : Vector Bool n              -- treeCanSleep(m, d, i, m->opt.sleep_tolerance)
  islands : List (List (Fin n))    -- map_itree2tree[island_itreeadr[k] .. +island_ntree[k])
  rest : List (Fin n)              -- map_itree2tree[end of last island .. ntree)   (unused when nisland = 0)

/-- First sweep of `mj_sleep`: countdown of the awake trees (each iteration touches only its own entry). -/
def countdown {n : Nat} (can : Vector Bool n) (ta : TA n) : TA n :=
  Vector.ofFn fun i : Fin n =>
    let v := ta[i]
    if v ≥ 0 then v
    else if can[i] then (if v < -1 then v + 1 else v)
    else kAwake

/-- Inner loop over the trees of one island: `some true` = all at ‑1, `some false` = `break` on a tree
    `< -1`, `none` = a sleeping tree was met before that (mjERROR). -/
def islandCanSleep {n : Nat} (ta : TA n) : List (Fin n) → Option Bool
  | [] => some true
  | t :: r => if ta[t] < -1 then some false else if ta[t] ≥ 0 then none else islandCanSleep ta r

/-- Second sweep of `mj_sleep` (islands); returns the state, the number of slept trees, the error. -/
def sleepIslands {n nv : Nat} {V : Type} (zero : V) (td : TreeDofs n nv) :
    List (List (Fin n)) → St n nv V → Nat → St n nv V × Nat × Option SleepErr
  | [], s, k => (s, k, none)
  | isl :: more, s, k =>
    match islandCanSleep s.ta isl with
    | none => (s, k, some .sleepingInIsland)
    | some false => sleepIslands zero td more s k
    | some true =>
      match sleepTrees zero td isl s with
      | (s', some e) => (s', k, some e)
      | (s', none) => sleepIslands zero td more s' (k + isl.length)

/-- Third sweep of `mj_sleep` (unconstrained trees, one singleton cycle each). -/
def sleepSingles {n nv : Nat} {V : Type} (zero : V) (td : TreeDofs n nv) :
    List (Fin n) → St n nv V → Nat → St n nv V × Nat × Option SleepErr
  | [], s, k => (s, k, none)
  | t :: more, s, k =>
    if s.ta[t] = -1 then
      match sleepTrees zero td [t] s with
      | (s', some e) => (s', k, some e)
      | (s', none) => sleepSingles zero td more s' (k + 1)
    else sleepSingles zero td more s k

/-- `mj_sleep(m, d)`: state, `nslept`, error. -/
def sleep {n nv : Nat} {V : Type} (zero : V) (td : TreeDofs n nv) (inp : SleepIn n) (s : St n nv V) :
    St n nv V × Nat × Option SleepErr :=
  if !inp.enabled then (s, 0, none)
  else if inp.nefc ≠ 0 ∧ inp.islands.isEmpty then (s, 0, none)
  else
    let s1 : St n nv V := { s with ta := countdown inp.can s.ta }
    match sleepIslands zero td inp.islands s1 0 with
    | (s2, k, some e) => (s2, k, some e)
    | (s2, k, none) =>
      let rest := if inp.islands.isEmpty then List.finRange n else inp.rest
      sleepSingles zero td rest s2 k

/-! ## mj_wake -/

/-- Sweep of `mj_wake` over the trees `i = 0 … ntree-1` (sleep enabled).  `flag[i]` is
    `d->tree_awake[i] || !treeCanSleep(m, d, i, 0)` (`tree_awake[i]` is set by mj_kinematics1 when the pose
    of a sleeping body no longer matches). -/
def wakeSweep {n : Nat} (flag : Vector Bool n) : List (Fin n) → TA n → Nat → TA n × WakeRes
  | [], ta, k => (ta, .ok k)
  | i :: more, ta, k =>
    if ta[i] ≥ 0 ∧ flag[i] then
      match wakeIsland ta (i.val : Int) kAwake with
      | (ta', .ok w) => wakeSweep flag more ta' (k + w)
      | (ta', .err e) => (ta', .err e)
    else wakeSweep flag more ta k

/-- `mj_wake(m, d)`; `ntreeAwake` is `d->ntree_awake`.  Returns the array and the C return value. -/
def wake {n : Nat} (enabled : Bool) (ntreeAwake : Nat) (flag : Vector Bool n) (ta : TA n) : TA n × WakeRes :=
  if !enabled then
    ((if ntreeAwake < n then Vector.replicate n kAwake else ta), .ok (n - ntreeAwake))
  else wakeSweep flag (List.finRange n) ta 0

/-! ## mj_wakeCollision (geom–geom contacts) -/

/-- What `mj_wakeCollision` reads about one contact: `body_treeid` of the two bodies (`none` = ‑1) and
    whether `body_awake[b] == mjS_AWAKE` for each. -/
structure Contact (n : Nat) where
  tree1 : Option (Fin n)
  tree2 : Option (Fin n)
  bAwake1 : Bool
  bAwake2 : Bool

/-- One iteration of the contact loop; `stale` is `d->tree_awake` (not refreshed inside the loop). -/
def wakeContact {n : Nat} (stale : Vector Bool n) (ta : TA n) (c : Contact n) : TA n × WakeRes :=
  match c.tree1, c.tree2 with
  | none, none => (ta, .ok 0)
  | none, some t => if !stale[t] ∧ c.bAwake1 then wakeIsland ta (t.val : Int) kAwake else (ta, .ok 0)
  | some t, none => if !stale[t] ∧ c.bAwake2 then wakeIsland ta (t.val : Int) kAwake else (ta, .ok 0)
  | some t1, some t2 =>
    if stale[t1] ∧ stale[t2] then (ta, .ok 0)
    else if !stale[t1] ∧ !stale[t2] then (ta, .err .bothAsleep)
    else if stale[t1] then wakeIsland ta (t2.val : Int) ta[t1]
    else wakeIsland ta (t1.val : Int) ta[t2]

def wakeCollisionGo {n : Nat} (stale : Vector Bool n) : List (Contact n) → TA n → Nat → TA n × WakeRes
  | [], ta, k => (ta, .ok k)
  | c :: more, ta, k =>
    match wakeContact stale ta c with
    | (ta', .ok w) => wakeCollisionGo stale more ta' (k + w)
    | (ta', .err e) => (ta', .err e)

/-- `mj_wakeCollision(m, d)` restricted to geom–geom contacts. -/
def wakeCollision {n : Nat} (enabled : Bool) (stale : Vector Bool n) (cs : List (Contact n)) (ta : TA n) :
    TA n × WakeRes :=
  if !enabled then (ta, .ok 0) else wakeCollisionGo stale cs ta 0

/-! ## mj_updateSleepInit -/

/-- `mjtSleepState` values. -/
def sStatic : Int := -1
def sAsleep : Int := 0
def sAwake : Int := 1

/-- The model arrays `mj_updateSleepInit` reads (`treeid = none` encodes ‑1). -/
structure BodyTopo (n nbody nv : Nat) where
  treeid : Vector (Option (Fin n)) nbody
  parentid : Vector (Fin nbody) nbody
  rootid : Vector (Fin nbody) nbody
  mocapid : Vector Int nbody
  dofBody : Vector (Fin nbody) nv

structure Derived (n nbody nv : Nat) where
  treeAwake : Vector Int n
  ntreeAwake : Nat
  bodyAwake : Vector Int nbody
  bodyAwakeInd : List (Fin nbody)      -- body_awake_ind[0 .. nbody_awake)
  parentAwakeInd : List (Fin nbody)    -- parent_awake_ind[0 .. nparent_awake)
  dofAwakeInd : List (Fin nv)          -- dof_awake_ind[0 .. nv_awake)

/-- Value written to `body_awake[i]` by the body loop. -/
def bodyState {n nbody nv : Nat} (flgStaticAwake : Bool) (ta : TA n) (tp : BodyTopo n nbody nv)
    (i : Fin nbody) : Int :=
  match tp.treeid[i] with
  | none =>
    if tp.mocapid[tp.rootid[i]] ≥ 0 then sAwake
    else if flgStaticAwake then sAwake else sStatic
  | some t => if ta[t] < 0 then sAwake else sAsleep     -- tree_awake[body_treeid[i]] ? AWAKE : ASLEEP

/-- The body loop, sequential as in C: `body_awake[body_parentid[i]]` is read from the array under
    construction (`old` = content of `d->body_awake` before the call). -/
def bodyLoop {n nbody nv : Nat} (flg : Bool) (ta : TA n) (tp : BodyTopo n nbody nv) :
    List (Fin nbody) → Vector Int nbody → List (Fin nbody) → List (Fin nbody) →
    Vector Int nbody × List (Fin nbody) × List (Fin nbody)
  | [], ba, bi, pi => (ba, bi.reverse, pi.reverse)
  | i :: more, ba, bi, pi =>
    let ba' := ba.set i (bodyState flg ta tp i)
    let bi' := if ba'[i] ≠ sAsleep then i :: bi else bi
    let pi' := if i.val ≠ 0 ∧ ba'[tp.parentid[i]] ≠ sAsleep then i :: pi else pi
    bodyLoop flg ta tp more ba' bi' pi'

/-- `mj_updateSleepInit(m, d, flg_staticawake)`. -/
def updateSleepInit {n nbody nv : Nat} (flg : Bool) (ta : TA n) (tp : BodyTopo n nbody nv)
    (old : Vector Int nbody) : Derived n nbody nv :=
  let treeAwake : Vector Int n := Vector.ofFn fun i : Fin n => if ta[i] < 0 then 1 else 0
  let ntreeAwake := ((List.finRange n).filter fun i => ta[i] < 0).length
  let (ba, bi, pi) := bodyLoop flg ta tp (List.finRange nbody) old [] []
  let di := (List.finRange nv).filter fun i =>
    (tp.treeid[tp.dofBody[i]]).isSome ∧ ba[tp.dofBody[i]] = sAwake
  { treeAwake := treeAwake, ntreeAwake := ntreeAwake, bodyAwake := ba,
    bodyAwakeInd := bi, parentAwakeInd := pi, dofAwakeInd := di }

/-! ## mj_advance (velocity and position update) -/

/-- `body_jntadr`, `body_jntnum` with the bound the C code relies on. -/
structure BodyJnts (nbody njnt : Nat) where
  adr : Vector Nat nbody
  num : Vector Nat nbody
  bound : ∀ b : Fin nbody, adr[b] + num[b] ≤ njnt

/-- Joints `body_jntadr[b] .. +body_jntnum[b]` of body `b`. -/
def BodyJnts.joints {nbody njnt : Nat} (bj : BodyJnts nbody njnt) (b : Fin nbody) : List (Fin njnt) :=
  (List.finRange njnt).filter fun j => bj.adr[b] ≤ j.val ∧ j.val < bj.adr[b] + bj.num[b]

/-- `mju_addToSclInd(qvel, qacc, ind, dt, n)` / `mju_addToScl`: `qvel[i] = addScl qvel[i] qacc[i]` with
    `addScl v a = v + dt*a`. -/
def addToSclInd {V : Type} {nv : Nat} (addScl : V → V → V) (qacc : Vector V nv) :
    List (Fin nv) → Vector V nv → Vector V nv
  | [], v => v
  | i :: more, v => addToSclInd addScl qacc more (v.set i (addScl v[i] qacc[i]))

/-- `mj_integratePosInd(m, qpos, qvel, dt, index, nbody)`: `bodies` is `index[1..nbody)` (resp. `1..nbody`);
    `integ j p qvel` is the update of the position block of joint `j` (free/ball/slide/hinge cases). -/
def integratePosInd {P V : Type} {nbody njnt nv : Nat} (bj : BodyJnts nbody njnt)
    (integ : Fin njnt → P → Vector V nv → P) (qvel : Vector V nv) :
    List (Fin nbody) → Vector P njnt → Vector P njnt
  | [], q => q
  | b :: more, q =>
    integratePosInd bj integ qvel more ((bj.joints b).foldl (fun (q : Vector P njnt) (j : Fin njnt) => q.set j (integ j q[j] qvel)) q)

structure AdvOut (n nbody nv njnt : Nat) (P V : Type) where
  st : St n nv V
  qpos : Vector P njnt
  der : Derived n nbody nv
  nslept : Nat
  err : Option SleepErr

/-- The part of `mj_advance` between "advance activations" and "advance time":
    `if (mj_sleep(m,d)) { mj_forwardSkip(..); mj_updateSleep(m,d); }`, then the velocity update over
    `dof_awake_ind` and the position update over `body_awake_ind` when `sleep_filter` holds, over
    everything otherwise.  `qacc` is the caller's acceleration vector (a stack copy in mj_EulerSkip /
    mj_implicitSkip, untouched by mj_sleepTrees); mj_forwardSkip(mjSTAGE_POS) writes neither qpos, qvel
    nor tree_asleep and is not modelled. -/
def advance {P V : Type} {n nbody nv njnt : Nat} (zero : V) (addScl : V → V → V)
    (integ : Fin njnt → P → Vector V nv → P)
    (td : TreeDofs n nv) (tp : BodyTopo n nbody nv) (bj : BodyJnts nbody njnt)
    (inp : SleepIn n) (qacc : Vector V nv) (der : Derived n nbody nv)
    (s : St n nv V) (qpos : Vector P njnt) : AdvOut n nbody nv njnt P V :=
  match sleep zero td inp s with
  | (s1, k, some e) => { st := s1, qpos := qpos, der := der, nslept := k, err := some e }
  | (s1, k, none) =>
    let der1 := if k ≠ 0 then updateSleepInit false s1.ta tp der.bodyAwake else der
    let filter := inp.enabled ∧ der1.ntreeAwake < n
    let qvel := addToSclInd addScl qacc (if filter then der1.dofAwakeInd else List.finRange nv) s1.qvel
    let bodies := (if filter then der1.bodyAwakeInd else List.finRange nbody).drop 1
    { st := { s1 with qvel := qvel }, qpos := integratePosInd bj integ qvel bodies qpos,
      der := der1, nslept := k, err := none }

end MjProof.Sleep
