/-
Model of the work partition of the threaded branch of `mjCModel::LengthRange` (src/user/user_model.cc): with `n` actuators
and `t` worker threads the number of actuators per thread is

    int num = n / t;  while (num * t < n) num++;

worker `i` gets the contiguous slice `[i*num, i*num + num)`, and `LRfunc` visits the indices of its slice that are `< n`
(`mj_setLengthRange` itself skips the actuators that need no computation, so EVERY index must be visited).  Core Lean only.
-/
namespace MjProof.LRSlices

/-- the `while (num * t < n) num++` loop, with fuel -/
def numLoop (n t : Nat) : Nat → Nat → Nat
  | 0, num => num
  | fuel + 1, num => if num * t < n then numLoop n t fuel (num + 1) else num

/-- actuators per thread -/
def perThread (n t : Nat) : Nat := numLoop n t (n + 1) (n / t)

/-- the indices visited by worker `i` (`LRfunc`: `for (k = start; k < start + num; k++) if (k < n) ...`) -/
def slice (n num i : Nat) : List Nat := ((List.range num).map (fun k => i * num + k)).filter (fun k => k < n)

/-- all workers -/
def slices (n t : Nat) : List (List Nat) := (List.range t).map (slice n (perThread n t))

end MjProof.LRSlices
