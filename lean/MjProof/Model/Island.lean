/-
Executable model of the island-discovery code of `src/engine/engine_island.c` (core Lean only).

  mj_dsuRoot / mj_dsuMerge / mj_dsuAssign   union-find over kinematic trees (`parent : int[ntree]`,
                                            -1 = tree not touched by any constraint)
  mj_floodFill                              DFS over a CSR adjacency matrix (exported, unused by mj_island)
  unionConstraintTrees (merge schedule)     per constraint: chain-union of the trees returned by treeNext,
                                            then a star-union per stiffness-active flex
  mj_island (index maps)                    tree/dof/efc counting-sort maps

Conventions.  C `int` arrays are `Array Int` where the code stores the sentinel -1, `Array Nat`
otherwise.  Every function returns `Option`: `none` means that the C code would read or write outside an
array, read an entry it never wrote, follow a parent pointer that does not descend (the termination
measure of the `while` loops of mj_dsuRoot — Props/C17 proves that this never happens in a state
reachable from `parent = -1,…,-1` by merges, i.e. both loops terminate), or hit one of the
"SHOULD NOT OCCUR" mjERROR checks.  The one documented error, `mj_dsuMerge(-1,-1)`, has its own
constructor `MergeOut.staticError`.  There is no fuel anywhere: the recursions are structural on the
tree index (root/compress) or on a lexicographic measure (flood fill).
-/
namespace MjProof.Island

/-! ## union-find -/

/-- First loop of `mj_dsuRoot`: `while (parent[root] != root) root = parent[root];`.
    Recursion on the tree index; `none` when the pointer leaves the array or does not descend. -/
def findRoot (p : Array Int) (t : Nat) : Option Nat :=
  if h : t < p.size then
    if p[t] = (t : Int) then some t
    else if hq : 0 ≤ p[t] ∧ p[t] < (t : Int) then findRoot p p[t].toNat
    else none
  else none
termination_by t
decreasing_by omega

/-- Second loop of `mj_dsuRoot`:
    `while (parent[tree] != tree) { next = parent[tree]; parent[tree] = root; tree = next; }`. -/
def compress (p : Array Int) (t : Nat) (root : Nat) : Option (Array Int) :=
  if h : t < p.size then
    if p[t] = (t : Int) then some p
    else if hq : 0 ≤ p[t] ∧ p[t] < (t : Int) then compress (p.set t (root : Int)) p[t].toNat root
    else none
  else none
termination_by t
decreasing_by omega

/-- `mj_dsuRoot(parent, tree)`: returns the root and the path-compressed array. -/
def dsuRoot (p : Array Int) (t : Nat) : Option (Nat × Array Int) :=
  match findRoot p t with
  | none => none
  | some r =>
    match compress p t r with
    | none => none
    | some p' => some (r, p')

/-- `if (parent[tree] == -1) parent[tree] = tree;` -/
def activate (p : Array Int) (t : Nat) : Option (Array Int) :=
  if h : t < p.size then
    if p[t] = -1 then some (p.set t (t : Int)) else some p
  else none

/-- Body of `mj_dsuMerge` after the static endpoints have been replaced. -/
def mergeCore (p : Array Int) (a b : Nat) : Option (Array Int) :=
  match activate p a with
  | none => none
  | some p1 =>
    match activate p1 b with
    | none => none
    | some p2 =>
      match p2[a]?, p2[b]? with
      | some pa, some pb =>
        if pa = pb then some p2
        else
          match dsuRoot p2 a with
          | none => none
          | some (r1, p3) =>
            match dsuRoot p3 b with
            | none => none
            | some (r2, p4) =>
              if r1 < r2 then
                if h : r2 < p4.size then some (p4.set r2 (r1 : Int)) else none
              else if r2 < r1 then
                if h : r1 < p4.size then some (p4.set r1 (r2 : Int)) else none
              else some p4
      | _, _ => none

inductive MergeOut where
  | ok (p : Array Int)
  | staticError            -- mjERROR("self-incidence of the static tree"), parent unchanged
  | undef                  -- read/write outside the array
  deriving Repr

/-- `mj_dsuMerge(parent, tree1, tree2)`; -1 denotes a static endpoint. -/
def dsuMerge (p : Array Int) (t1 t2 : Int) : MergeOut :=
  if t1 = -1 ∧ t2 = -1 then .staticError
  else
    let a := if t1 = -1 then t2 else t1
    let b := if t2 = -1 then a else t2
    if a < 0 ∨ b < 0 then .undef
    else
      match mergeCore p a.toNat b.toNat with
      | some p' => .ok p'
      | none => .undef

/-- A sequence of merges (the history of one `unionConstraintTrees` call); `none` as soon as one of them is
    not `ok`. -/
def mergeStep (p : Array Int) (m : Int × Int) : Option (Array Int) :=
  match dsuMerge p m.1 m.2 with
  | .ok p' => some p'
  | _ => none

def runMerges (p : Array Int) (ms : List (Int × Int)) : Option (Array Int) := ms.foldlM mergeStep p

def initParent (ntree : Nat) : Array Int := Array.replicate ntree (-1)

structure Assign where
  island : Array Int      -- entries written so far: island[0 .. tree)
  parent : Array Int
  nisland : Nat
  nidof : Int
  deriving Repr

/-- One iteration (`tree`) of the loop of `mj_dsuAssign`.  `island[tree] = v` is a push: the model's island
    array holds exactly the entries written so far, so reading a not yet written entry gives `none`. -/
def assignStep (dofnum : Array Int) (s : Assign) (tree : Nat) : Option Assign :=
  if h : tree < s.parent.size then
    match dofnum[tree]? with
    | none => none
    | some dn =>
      let q := s.parent[tree]
      if q = -1 then some { s with island := s.island.push (-1) }
      else if q = (tree : Int) then
        some { island := s.island.push (s.nisland : Int), parent := s.parent,
               nisland := s.nisland + 1, nidof := s.nidof + dn }
      else if hq : 0 ≤ q ∧ q.toNat < s.parent.size then
        -- parent[tree] = parent[parent[tree]]; island[tree] = island[parent[tree]];
        let g := s.parent[q.toNat]
        if 0 ≤ g then
          match s.island[g.toNat]? with
          | some v => some { island := s.island.push v, parent := s.parent.set tree g,
                             nisland := s.nisland, nidof := s.nidof + dn }
          | none => none
        else none
      else none
  else none

/-- `mj_dsuAssign(island, parent, tree_dofnum, ntree, &nidof)`. -/
def dsuAssign (p : Array Int) (dofnum : Array Int) (ntree : Nat) : Option Assign :=
  (List.range ntree).foldlM (assignStep dofnum) { island := #[], parent := p, nisland := 0, nidof := 0 }

/-! ## flood fill -/

/-- `colind[rowadr[v] .. rowadr[v] + rownnz[v])` -/
def ffNeighbors (rownnz rowadr colind : Array Nat) (v : Nat) : Option (List Nat) :=
  match rownnz[v]?, rowadr[v]? with
  | some n, some a => if a + n ≤ colind.size then some ((colind.extract a (a + n)).toList) else none
  | _, _ => none

theorem count_set_lt {l : Array Int} {v : Nat} (h : v < l.size) (hv : l[v] = -1) (c : Nat) :
    (l.set v (c : Int)).count (-1) < l.count (-1) := by
  rw [Array.count_set]
  have hc : ((c : Int) == -1) = false := by
    simp only [beq_eq_false_iff_ne, ne_eq]; omega
  have hpos : 0 < l.count (-1) := by
    apply Array.count_pos_iff.mpr
    rw [← hv]; exact Array.getElem_mem h
  simp only [hv, beq_self_eq_true, if_true, hc, Bool.false_eq_true, if_false]
  omega

/-- The `while (nstack)` loop of `mj_floodFill` for island id `c`; the head of `stack` is the top.
    Terminates because every iteration either labels a new vertex or shrinks the stack. -/
def ffInner (rownnz rowadr colind : Array Nat) (c : Nat) (island : Array Int) (stack : List Nat) :
    Option (Array Int) :=
  match stack with
  | [] => some island
  | v :: rest =>
    if h : v < island.size then
      if hv : island[v] = -1 then
        match ffNeighbors rownnz rowadr colind v with
        | some ns => ffInner rownnz rowadr colind c (island.set v (c : Int)) (ns.reverse ++ rest)
        | none => none
      else ffInner rownnz rowadr colind c island rest
    else none
termination_by (island.count (-1), stack.length)
decreasing_by
  · exact Prod.Lex.left _ _ (count_set_lt h hv c)
  · exact Prod.Lex.right _ (by simp)

def ffOuterStep (rownnz rowadr colind : Array Nat) (s : Array Int × Nat) (i : Nat) : Option (Array Int × Nat) :=
  match s.1[i]?, rownnz[i]? with
  | some isl, some n =>
    if isl ≠ -1 ∨ n = 0 then some s
    else
      match ffInner rownnz rowadr colind s.2 s.1 [i] with
      | some island' => some (island', s.2 + 1)
      | none => none
  | _, _ => none

/-- `mj_floodFill(island, nr, rownnz, rowadr, colind, stack)`: returns `(island, nisland)`. -/
def floodFill (nr : Nat) (rownnz rowadr colind : Array Nat) : Option (Array Int × Nat) :=
  (List.range nr).foldlM (ffOuterStep rownnz rowadr colind) (Array.replicate nr (-1), 0)

/-! ## merge schedule of `unionConstraintTrees` -/

/-- Chain-union of the trees `tree1, tree2, …` returned by `treeNext` for one constraint
    (`ts` = all of them, in order; -1 = static body).  Returns `(parent, efc_tree)`. -/
def chainMerge (p : Array Int) : Int → List Int → Option (Array Int)
  | _, [] => some p
  | t1, t2 :: rest =>
    match dsuMerge p t1 t2 with
    | .ok p' => chainMerge p' t2 rest
    | _ => none

def unionRow (p : Array Int) (ts : List Int) : Option (Array Int × Int) :=
  match ts with
  | [] => none                                   -- "no tree found for constraint %d"
  | [t1] =>
    if t1 < 0 then none                          -- "constraint %d is between two static bodies"
    else match dsuMerge p t1 (-1) with
      | .ok p' => some (p', t1)
      | _ => none
  | t1 :: t2 :: rest =>
    let e := if 0 ≤ t1 then t1 else t2
    if e < 0 then none
    else match chainMerge p t1 (t2 :: rest) with
      | some p' => some (p', e)
      | none => none

/-- Rows of `efc`: `some ts` starts a new constraint with incident trees `ts`; `none` is a further scalar
    row of the same constraint (`efc_tree[i] = efc_tree[i-1]`). -/
def unionRowsStep (s : Array Int × Array Int) (row : Option (List Int)) : Option (Array Int × Array Int) :=
  match row with
  | some ts =>
    match unionRow s.1 ts with
    | some (p', e) => some (p', s.2.push e)
    | none => none
  | none =>
    match s.2.back? with
    | some e => some (s.1, s.2.push e)
    | none => none

/-- Star-union of one stiffness-active flex: `ts` are `(body_treeid, tree_awake)` of its vertices/nodes. -/
def flexStar (p : Array Int) : Int → List (Int × Bool) → Option (Array Int)
  | _, [] => some p
  | t1, (t2, awake) :: rest =>
    if t2 < 0 ∨ t2 = t1 ∨ !awake then flexStar p t1 rest
    else if t1 < 0 then flexStar p t2 rest
    else match dsuMerge p t1 t2 with
      | .ok p' => flexStar p' t1 rest
      | _ => none

def unionConstraintTrees (ntree : Nat) (rows : List (Option (List Int))) (flexes : List (List (Int × Bool))) :
    Option (Array Int × Array Int) :=
  match rows.foldlM unionRowsStep (initParent ntree, #[]) with
  | none => none
  | some (p, efcTree) =>
    match flexes.foldlM (fun p f => flexStar p (-1) f) p with
    | some p' => some (p', efcTree)
    | none => none

/-! ## counting-sort index maps of `mj_island` -/

/-- `if (island >= 0) cnt[island]++` (`guard = true`: trees, dofs) or the unguarded `cnt[island]++` (efc). -/
def countStep (guard : Bool) (cnt : Array Nat) (key : Int) : Option (Array Nat) :=
  if 0 ≤ key then
    if h : key.toNat < cnt.size then some (cnt.set key.toNat (cnt[key.toNat] + 1)) else none
  else if guard then some cnt else none

def countKeys (guard : Bool) (keys : List Int) (nb : Nat) : Option (Array Nat) :=
  keys.foldlM (countStep guard) (Array.replicate nb 0)

/-- `adr[0] = 0; adr[i] = adr[i-1] + cnt[i-1]` -/
def cumsum (cnt : Array Nat) : Array Nat :=
  (cnt.foldl (fun (s : Array Nat × Nat) c => (s.1.push s.2, s.2 + c)) (#[], 0)).1

structure Place where
  cnt2 : Array Nat             -- island_n*2: per-island fill counters, last entry = unconstrained
  fwd : Array Nat              -- map_x2ix, written so far (index of the current element = fwd.size)
  inv : Array (Option Nat)     -- map_ix2x; `none` = never written
  deriving Repr

def placeWrite (s : Place) (b c idx : Nat) (hb : b < s.cnt2.size) : Option Place :=
  if h : idx < s.inv.size then
    some { cnt2 := s.cnt2.set b (c + 1), fwd := s.fwd.push idx, inv := s.inv.set idx (some s.fwd.size) }
  else none

/-- One iteration of the "compute x <-> ix maps" loops:
    `ix = island >= 0 ? adr[island] + cnt2[island]++ : base + cnt2[nb]++; fwd[x] = ix; inv[ix] = x`. -/
def placeStep (guard : Bool) (adr : Array Nat) (nb base : Nat) (s : Place) (key : Int) : Option Place :=
  if 0 ≤ key then
    match adr[key.toNat]? with
    | none => none
    | some a =>
      if hb : key.toNat < s.cnt2.size then placeWrite s key.toNat s.cnt2[key.toNat] (a + s.cnt2[key.toNat]) hb
      else none
  else if guard then
    if hb : nb < s.cnt2.size then placeWrite s nb s.cnt2[nb] (base + s.cnt2[nb]) hb else none
  else none

structure Maps where
  cnt : Array Nat              -- island_ntree / island_nv / island_nefc
  adr : Array Nat              -- island_itreeadr / island_idofadr / island_iefcadr
  fwd : Array Nat              -- (ghost for trees) / map_dof2idof / map_efc2iefc
  inv : Array Nat              -- map_itree2tree / map_idof2dof / map_iefc2efc
  deriving Repr

/-- Start of the unconstrained block: given (`nidof` for dofs) or, for trees,
    `last_tree = island_itreeadr[nisland-1] + island_ntree[nisland-1]`. -/
def blockEnd (adr cnt : Array Nat) (nb : Nat) (base : Option Nat) : Option Nat :=
  match base with
  | some b => some b
  | none =>
    match adr[nb - 1]?, cnt[nb - 1]? with
    | some a, some c => some (a + c)
    | _, _ => none

/-- All four passes for one kind of object (`n = keys.length` objects, `nb = nisland` buckets, `base` =
    start of the unconstrained block) including the SHOULD-NOT-OCCUR miscount checks. -/
def buildMaps (guard : Bool) (keys : List Int) (nb : Nat) (base : Option Nat) : Option Maps :=
  if nb = 0 then none else
  match countKeys guard keys nb with
  | none => none
  | some cnt =>
    let adr := cumsum cnt
    -- trees: last_tree = island_itreeadr[nisland-1] + island_ntree[nisland-1]
    match blockEnd adr cnt nb base with
    | none => none
    | some base =>
      match keys.foldlM (placeStep guard adr nb base)
              { cnt2 := Array.replicate (nb + 1) 0, fwd := #[], inv := Array.replicate keys.length none } with
      | none => none
      | some s =>
        if s.cnt2.extract 0 nb ≠ cnt then none                         -- "island_n* miscount"
        else if guard ∧ s.cnt2[nb]? ≠ some (keys.length - base) then none   -- "miscount of unconstrained"
        else if guard ∧ keys.length < base then none
        else
          match s.inv.toList.mapM id with
          | some inv => some { cnt := cnt, adr := adr, fwd := s.fwd, inv := inv.toArray }
          | none => none

structure IslandOut where
  nisland : Nat
  nidof : Nat
  tree_island : Array Int
  parent : Array Int           -- after mj_dsuAssign (fully compressed); not stored in mjData
  efc_tree : Array Int         -- stack-local in mj_island
  trees : Maps
  dof_island : Array Int
  dofs : Maps
  island_dofadr : Array Nat
  efc_island : Array Int
  efcs : Maps
  deriving Repr

def lookupAll (tbl : Array Int) (idx : List Int) : Option (List Int) :=
  idx.mapM (fun i => if 0 ≤ i then tbl[i.toNat]? else none)

/-- `mj_island` after the quick returns: `rows`/`flexes` describe what `treeNext` yields,
    `dofTree = m->dof_treeid`, `dofnum = m->tree_dofnum`.  `none` also for the quick returns of the engine,
    which leave `nisland = 0` and build no maps: no constraint rows (`!nefc`), or no island found. -/
def island (ntree : Nat) (dofnum : Array Int) (dofTree : List Nat) (rows : List (Option (List Int)))
    (flexes : List (List (Int × Bool))) : Option IslandOut :=
  if rows.isEmpty then none else            -- `!nefc`: quick return with nisland = 0, flex coupling not examined
  match unionConstraintTrees ntree rows flexes with
  | none => none
  | some (p, efcTree) =>
    match dsuAssign p dofnum ntree with
    | none => none
    | some a =>
      if a.nisland = 0 ∨ a.nidof < 0 then none else
      match buildMaps true a.island.toList a.nisland none with
      | none => none
      | some trees =>
        match lookupAll a.island (dofTree.map (fun (t : Nat) => (t : Int))) with
        | none => none
        | some dofIsland =>
          match buildMaps true dofIsland a.nisland (some a.nidof.toNat) with
          | none => none
          | some dofs =>
            match dofs.adr.toList.mapM (fun i => dofs.inv[i]?) with
            | none => none
            | some dofadr =>
              match lookupAll a.island efcTree.toList with
              | none => none
              | some efcIsland =>
                match buildMaps false efcIsland a.nisland none with
                | none => none
                | some efcs =>
                  some { nisland := a.nisland, nidof := a.nidof.toNat, tree_island := a.island,
                         parent := a.parent, efc_tree := efcTree, trees := trees,
                         dof_island := dofIsland.toArray, dofs := dofs, island_dofadr := dofadr.toArray,
                         efc_island := efcIsland.toArray, efcs := efcs }

end MjProof.Island
