import MjProof.Model.SolverCert
/-
Executable model of the discrete-time correction of the inverse dynamics (C09):

  src/engine/engine_inverse.c : mj_discreteAcc      (static; called by mj_inverseSkip when mjENBL_INVDISCRETE is set)

`mj_discreteAcc` replaces `d->qacc` (the DISCRETE acceleration `(v' − v)/h` of an Euler / implicit step) by the
continuous-time acceleration that the forward dynamics computed before the integrator modified it:

  Euler (with `eulerdamp`):   qfrc = (M + h·diag(B)) · qacc,         qacc ← M⁻¹ qfrc      (B = d(damping force)/dv)
  implicit / implicitfast:    qfrc = (M − h·∂f/∂v) · qacc,           qacc ← M⁻¹ qfrc
  Euler without dof damping, or with `mjDSBL_EULERDAMP` or `mjDSBL_DAMPER` set: nothing to do
  (the same branch condition as `mj_EulerSkip`; since fix 12e0c5659 both test EULERDAMP and DAMPER).

The model is dense: `Mhat` is the matrix the code multiplies with (`M + h·diag(B)` resp. `M − h·qDeriv`,
densified by the harness from the engine's own arrays) and the solve with `M` is the checker's dense Cholesky
(`Cert.chol`); the C code uses the sparse `L D Lᵀ` factor of `M` (`mj_solveM`), so the tie is a tolerance
comparison on `Float`, not bitwise.  Core Lean only.
-/
namespace MjProof.FwdInv
open MjProof MjProof.Cert

variable {α : Type} [MjNum α]

/-- `qfrc = Mhat · qacc; qacc ← M \ qfrc`; `none` if `M` is not numerically positive definite -/
def discreteAcc (M Mhat : List (List α)) (qaccDiscrete : List α) : Option (List α) := do
  let L ← chol M
  cholSolve L (matVec Mhat qaccDiscrete)

/-- branch condition of the Euler case, shared by `mj_EulerSkip` (forward) and `mj_discreteAcc` (inverse):
    `!mjDISABLED(mjDSBL_EULERDAMP) && !mjDISABLED(mjDSBL_DAMPER)` and some dof has damping (`dof_damping > 0`, a
    non-zero damping polynomial, or an actuator attached to its joint) -/
def eulerDampActive (disEulerDamp disDamper anyDamping : Bool) : Bool := !disEulerDamp && !disDamper && anyDamping

/-- the Euler case of `mj_discreteAcc`: the correction with `Mhat = M + h·diag(B)` when the branch is active,
    otherwise `qacc` is left untouched -/
def discreteAccEuler (disEulerDamp disDamper anyDamping : Bool) (M Mhat : List (List α)) (qaccDiscrete : List α) :
    Option (List α) :=
  if eulerDampActive disEulerDamp disDamper anyDamping then discreteAcc M Mhat qaccDiscrete else some qaccDiscrete

/-- the discrete acceleration the integrator produces from the continuous one: `Mhat a_d = M a_c` -/
def forwardDiscrete (M Mhat : List (List α)) (qaccContinuous : List α) : Option (List α) := do
  let L ← chol Mhat
  cholSolve L (matVec M qaccContinuous)

end MjProof.FwdInv
