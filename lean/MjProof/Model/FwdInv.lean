import MjProof.Model.SolverCert
/-
Executable model of the discrete-time correction of the inverse dynamics (C09):

  src/engine/engine_inverse.c : mj_discreteAcc      (static; called by mj_inverseSkip when mjENBL_INVDISCRETE is set)

`mj_discreteAcc` replaces `d->qacc` (the DISCRETE acceleration `(v' − v)/h` of an Euler / implicit step) by the
continuous-time acceleration that the forward dynamics computed before the integrator modified it:

  Euler (with `eulerdamp`):   qfrc = (M + h·diag(B)) · qacc,         qacc ← M⁻¹ qfrc      (B = d(damping force)/dv)
  implicit / implicitfast:    qfrc = (M − h·∂f/∂v) · qacc,           qacc ← M⁻¹ qfrc
  Euler without dof damping or with `mjDSBL_EULERDAMP`: nothing to do.

The model is dense: `Mhat` is the matrix the code multiplies with (`M + h·diag(B)` resp. `M − h·qDeriv`,
densified by the harness from the engine's own arrays) and the solve with `M` is the checker's dense Cholesky
(`Cert.chol`); the C code uses the sparse `L D Lᵀ` factor of `M` (`mj_solveM`), so the tie is a tolerance
comparison on `Float`, not bitwise.  Core Lean only.
-/
namespace MjProof.FwdInv
open MjProof MjProof.Cert

variable {α : Type} [MjNum α]

/-- `qfrc = Mhat · qacc; qacc ← M \ qfrc`; `none` if `M` is not numerically positive definite -/
def discreteAcc (M Mhat : List (List α)) (qaccDiscrete : List α) : Option (List α) := do
  let L ← chol M
  cholSolve L (matVec Mhat qaccDiscrete)

/-- the discrete acceleration the integrator produces from the continuous one: `Mhat a_d = M a_c` -/
def forwardDiscrete (M Mhat : List (List α)) (qaccContinuous : List α) : Option (List α) := do
  let L ← chol Mhat
  cholSolve L (matVec M qaccContinuous)

end MjProof.FwdInv
