import MjProof.Model.Schema
/-
Model of the stage-1 schema generators of `doc/generate/` (C42):
  `generate_mjcf_map.py`      -> `genMap`
  `generate_mjcf_table.py`    -> `genTable`
  `generate_default_table.py` -> `genDefault`   (the struct layouts returned by `parse_spec_structs` are an input)
Core Lean only.  All text is `List Char` (`Txt`); a generator is a pure function of the parsed schema (the C41 model's
`Schema N`) returning `Except GenErr Txt`, where `GenErr` is the class of the Python exception the generator raises.

Each generator is split into a *row layer* (schema -> structured rows, no text) and a *render layer* (rows -> bytes);
`SchemaGenExtract.lean` parses the bytes back into rows.
-/
namespace MjProof.SchemaGen
open MjProof.Schema

abbrev Txt := List Char

/-- A string literal as text. -/
def L (s : String) : Txt := s.toList

/-- Class of the Python exception a generator terminates with. -/
inductive GenErr where
  | schemaError | keyError | valueError | recursionError | assertionError | overflowError | typeError | attributeError
  | unmodelled            -- a branch the validator excludes (never a default: the driver reports it)
  deriving DecidableEq, Repr

variable {N : Nat}

/-! ## text helpers (Python `str` methods) -/

def spaces (n : Nat) : Txt := List.replicate n ' '

/-- `sep.join(parts)` -/
def joinWith (sep : Txt) : List Txt → Txt
  | [] => []
  | [x] => x
  | x :: y :: r => x ++ sep ++ joinWith sep (y :: r)

/-- `'\n'.join(lines)` -/
def joinNL (ls : List Txt) : Txt := joinWith ['\n'] ls

/-- `str(n)` for a non-negative int. -/
def natStr (n : Nat) : Txt := Nat.toDigits 10 n

def intStr (i : Int) : Txt := if i < 0 then '-' :: natStr i.natAbs else natStr i.toNat

/-- `s.ljust(w)` -/
def ljust (s : Txt) (w : Nat) : Txt := s ++ spaces (w - s.length)

def quote (s : Txt) : Txt := '"' :: s ++ ['"']

/-- `s.startswith(p)` -/
def startsWith (s p : Txt) : Bool := p.isPrefixOf s
/-- `s.endswith(p)` -/
def endsWith (s p : Txt) : Bool := p.reverse.isPrefixOf s.reverse

def ltTxt : Txt → Txt → Bool
  | [], [] => false
  | [], _ :: _ => true
  | _ :: _, [] => false
  | a :: as, b :: bs => if a.toNat < b.toNat then true else if b.toNat < a.toNat then false else ltTxt as bs

/-- `sorted(keys)` for distinct `str` keys (code-point order). -/
def insertTxt (x : Txt) : List Txt → List Txt
  | [] => [x]
  | y :: ys => if ltTxt y x then y :: insertTxt x ys else x :: y :: ys
def sortTxt (l : List Txt) : List Txt := l.foldr insertTxt []

/-- `xml.sax.saxutils.escape` -/
def xmlEscape (s : Txt) : Txt :=
  s.flatMap fun c => if c = '&' then (L "&amp;") else if c = '>' then (L "&gt;")
    else if c = '<' then (L "&lt;") else [c]

/-- `xml.sax.saxutils.quoteattr` -/
def quoteAttr (s : Txt) : Txt :=
  let d := (xmlEscape s).flatMap fun c => if c = '\n' then (L "&#10;") else if c = '\r' then (L "&#13;")
    else if c = '\t' then (L "&#9;") else [c]
  if '"' ∈ d then
    if '\'' ∈ d then quote (d.flatMap fun c => if c = '"' then (L "&quot;") else [c])
    else '\'' :: d ++ ['\'']
  else quote d

/-! ## `repr(float)` / `str(int(float))` on the C41 model's binary64 values -/

/-- The finite value of `d` as `m * 2^e` (sign dropped). -/
def dblDecompose (d : Dbl) : Nat × Int :=
  let ef : Nat := d.mag / 2 ^ 52
  let mf : Nat := d.mag % 2 ^ 52
  if ef = 0 then (mf, -1074) else (2 ^ 52 + mf, (ef : Int) - 1075)

def dblIsInf (d : Dbl) : Bool := decide (d.mag ≥ Dbl.infMag)

/-- numerator / denominator of the magnitude -/
def dblRatio (d : Dbl) : Nat × Nat :=
  let (m, e) := dblDecompose d
  if e ≥ 0 then (m * 2 ^ e.toNat, 1) else (m, 2 ^ (-e).toNat)

/-- `num/den ≥ 10^k` -/
def geqPow10 (num den : Nat) (k : Int) : Bool :=
  if k ≥ 0 then num ≥ den * 10 ^ k.toNat else num * 10 ^ (-k).toNat ≥ den

/-- `floor(log10(num/den))` for `num > 0`. -/
def floorLog10 (num den : Nat) : Int :=
  let k0 : Int := ((natStr num).length : Int) - ((natStr den).length : Int)
  if geqPow10 num den k0 then k0 else k0 - 1

/-- The candidates with `n` significant digits around `num/den`: `(D, e10)` with value `D * 10^e10`, nearest first. -/
def candidates (num den : Nat) (k : Int) (n : Nat) : List (Nat × Int) :=
  let e10 : Int := k - (n : Int) + 1
  -- scaled = num/den / 10^e10
  let (sn, sd) := if e10 ≥ 0 then (num, den * 10 ^ e10.toNat) else (num * 10 ^ (-e10).toNat, den)
  let lo := sn / sd
  let r := sn % sd
  if r = 0 then [(lo, e10)]
  else if 2 * r < sd then [(lo, e10), (lo + 1, e10)]
  else if 2 * r > sd then [(lo + 1, e10), (lo, e10)]
  else if lo % 2 = 0 then [(lo, e10), (lo + 1, e10)] else [(lo + 1, e10), (lo, e10)]

/-- Shortest digit string that reads back as `d` (closest to `d` among the shortest), as `(digits, e10)`. -/
def shortestDigits (d : Dbl) : Nat × Int :=
  let (num, den) := dblRatio d
  let k := floorLog10 num den
  let pos : Dbl := ⟨false, d.mag⟩
  let rec go (n : Nat) (fuel : Nat) : Nat × Int :=
    match fuel with
    | 0 => (0, 0)
    | fuel + 1 =>
      match (candidates num den k n).find? (fun c => decToDbl false c.1 c.2 = pos) with
      | some c => c
      | none => go (n + 1) fuel
  go 1 17

def stripZeros (digits : Txt) (e10 : Int) : Txt × Int :=
  let z := (digits.reverse.takeWhile (· = '0')).length
  if z = digits.length then (['0'], 0) else (digits.take (digits.length - z), e10 + z)

/-- `repr(x)` for a float (`float_repr_style == 'short'`). -/
def pyRepr (d : Dbl) : Txt :=
  let sign : Txt := if d.neg then ['-'] else []
  if dblIsInf d then sign ++ (L "inf")
  else if d.mag = 0 then sign ++ (L "0.0")
  else
    let (D, e10) := shortestDigits d
    let (ds, e10) := stripZeros (natStr D) e10
    let decpt : Int := (ds.length : Int) + e10
    if decpt ≤ -4 ∨ decpt > 16 then
      let ex := decpt - 1
      let exs := natStr ex.natAbs
      let exs := if exs.length < 2 then '0' :: exs else exs
      let mant := match ds with
        | [] => []
        | [c] => [c]
        | c :: r => c :: '.' :: r
      sign ++ mant ++ ['e', if ex < 0 then '-' else '+'] ++ exs
    else if decpt ≤ 0 then sign ++ (L "0.") ++ List.replicate (-decpt).toNat '0' ++ ds
    else if decpt.toNat ≥ ds.length then sign ++ ds ++ List.replicate (decpt.toNat - ds.length) '0' ++ (L ".0")
    else sign ++ ds.take decpt.toNat ++ ['.'] ++ ds.drop decpt.toNat

/-- `_num(value)` / `_format_number(value)` for a float: `str(int(v))` when `v == int(v) and abs(v) < 1e15`. -/
def pyNum (d : Dbl) : Except GenErr Txt :=
  if dblIsInf d then .error .overflowError     -- int(inf)
  else
    let (num, den) := dblRatio d
    if num % den = 0 ∧ num / den < 10 ^ 15 then
      let v := num / den
      .ok (if d.neg ∧ v ≠ 0 then '-' :: natStr v else natStr v)
    else .ok (pyRepr d)

/-! ## schema access -/

def findElement (s : Schema N) (n : String) : Option (Element N) := s.elements.find? (fun e => e.name = n)

/-- `str(v)` of a facet payload. -/
def facetStr : FacetVal → Txt
  | .flag => (L "True")
  | .str s => s.toList
  | .num d => pyRepr d

/-- `element.xml_name()` -/
def xmlName (e : Element N) : Txt :=
  match Facets.get e.facets "xml" with
  | some v => facetStr v
  | none => e.name.toList

def hasFacet (fs : Facets) (k : String) : Bool := (Facets.get fs k).isSome

def cardStr : Card → Txt
  | .opt => ['?'] | .one => ['!'] | .star => ['*'] | .rep => ['R']

def verbChar : Verb → Char
  | .exclusive => 'e' | .together => 't' | .requires => 'r' | .oneof => 'o'

def attrNames (as : List (Attr N)) : List Txt := as.map (·.name.toList)

/-- The projection of a row in default context. -/
def projectAttrs (as : List (Attr N)) : List (Attr N) :=
  as.filter fun a => a.name ≠ "name" ∧ a.name ≠ "class" ∧ ¬ truthy (Facets.get a.facets "nodefault")

/-! ## `generate_mjcf_map.generate` -/

def mapHeader : Txt := "// Copyright 2026 DeepMind Technologies Limited
//
// Licensed under the Apache License, Version 2.0 (the \"License\");
// you may not use this file except in compliance with the License.
// You may obtain a copy of the License at
//
//     http://www.apache.org/licenses/LICENSE-2.0
//
// Unless required by applicable law or agreed to in writing, software
// distributed under the License is distributed on an \"AS IS\" BASIS,
// WITHOUT WARRANTIES OR CONDITIONS OF ANY KIND, either express or implied.
// See the License for the specific language governing permissions and
// limitations under the License.

// GENERATED FILE, DO NOT EDIT. Generated from src/xml/mjcf.schema by
// doc/generate/generate_mjcf_map.py; test/doc/doc_test.py checks freshness.
//
// Keyword maps, one per schema enum, shared by the reader, the writer and
// the generated tables. Inline variables: including this header is all a
// translation unit needs.

#ifndef MUJOCO_SRC_XML_GENERATED_MJCF_MAP_H_
#define MUJOCO_SRC_XML_GENERATED_MJCF_MAP_H_

#include <mujoco/mjspec.h>
#include <mujoco/mjtype.h>
#include \"user/user_composite.h\"
#include \"user/user_flexcomp.h\"
#include \"xml/xml_util.h\"

// clang-format off

// keywords of the built-in bool type (not a schema enum)
inline constexpr mjMap bool_map[] = {
  {\"false\",   0},
  {\"true\",    1},
};

".toList

def mapFooter : Txt := "// clang-format on

#endif  // MUJOCO_SRC_XML_GENERATED_MJCF_MAP_H_
".toList

/-- Row layer: `(enum name, [(keyword, constant)])` in declaration order. -/
abbrev MapRows := List (Txt × List (Txt × Txt))

def mapRows (s : Schema N) : MapRows :=
  s.enums.map fun e => (e.name.toList, e.items.map fun kv => (kv.1.toList, kv.2.toList))

def maxLen : List Txt → Nat
  | [] => 0
  | x :: xs => max x.length (maxLen xs)

def mapRowLine (width : Nat) (kv : Txt × Txt) : Txt :=
  (L "  {") ++ ljust (quote kv.1 ++ [',']) (width + 1) ++ [' '] ++ kv.2 ++ (L "},")

def mapBlock (e : Txt × List (Txt × Txt)) : List Txt :=
  let width := maxLen (e.2.map (·.1)) + 3
  [(L "// enum ") ++ e.1, (L "inline constexpr mjMap ") ++ e.1 ++ (L "_map[] = {")]
  ++ e.2.map (mapRowLine width)
  ++ [(L "};"), (L "inline constexpr int ") ++ e.1 ++ (L "_sz = ") ++ natStr e.2.length ++ [';'], []]

def renderMap (rows : MapRows) : Txt :=
  mapHeader ++ joinNL (rows.flatMap mapBlock) ++ mapFooter

/-- `max()` of an empty sequence raises `ValueError` (the parser rejects empty enums). -/
def genMap (s : Schema N) : Except GenErr Txt :=
  if (mapRows s).any (fun e => e.2.isEmpty) then .error .valueError else .ok (renderMap (mapRows s))

/-! ## `generate_mjcf_table` -/

/-! ### `_element_constraints` -/

def unvisitedG (s : Schema N) (visited : List String) : Nat :=
  ((groupNames s).filter (fun n => n ∉ visited)).length

/-- The `while stack:` loop; `stack` is kept top-first (Python pops from the end of its list). -/
def consWalk (s : Schema N) (stack : List String) (visited : List String) (acc : List (Constraint N)) :
    Except GenErr (List (Constraint N)) :=
  match stack with
  | [] => .ok acc
  | name :: rest =>
    if hv : name ∈ visited then consWalk s rest visited acc
    else
      match hf : findGroup s name with
      | none => .error .keyError
      | some g =>
        consWalk s (((memberUses g.members).map (·.group)).reverse ++ rest) (visited ++ [name])
          (acc ++ memberCons g.members)
termination_by (unvisitedG s visited, stack.length)
decreasing_by
  · apply Prod.Lex.right; simp
  · apply Prod.Lex.left
    exact filter_notin_lt _ _ _ (findGroup_mem hf) hv

/-- `_element_constraints(schema, element)` -/
def elementConstraints (s : Schema N) (e : Element N) : Except GenErr (List (Constraint N)) :=
  consWalk s ((memberUses e.members).map (·.group)).reverse [] (memberCons e.members)

/-! ### the walk -/

/-- One row of `MJCF[]` with the rows nested under it (`kids = []`: no `{"<"}`/`{">"}` block) and the presence
    constraints recorded for it. -/
inductive TNode where
  | mk (xml : Txt) (card : Txt) (attrs : List Txt) (cons : List (Char × Txt)) (kids : List TNode)

def conSpec (c : Constraint N) : Txt :=
  joinWith ['|'] (c.bundles.map fun b => joinWith [' '] (b.map (·.toList)))

def pairNames (s : Schema N) : List (String × Bool) :=
  (elementNames s).flatMap fun n => [(n, false), (n, true)]

def unseen (s : Schema N) (stack : List (String × Bool)) : Nat :=
  ((pairNames s).filter (fun p => p ∉ stack)).length

theorem findElement_mem {s : Schema N} {n : String} {e : Element N} (h : findElement s n = some e) :
    n ∈ elementNames s := by
  have hm := List.mem_of_find?_eq_some h
  have hn := List.find?_some h
  simp only [elementNames, List.mem_map]
  exact ⟨e, hm, by simpa using hn⟩

theorem unseen_lt {s : Schema N} {n : String} {e : Element N} {b : Bool} {stack : List (String × Bool)}
    (hf : findElement s n = some e) (hs : (n, b) ∉ stack) : unseen s (stack ++ [(n, b)]) < unseen s stack := by
  unfold unseen
  apply filter_length_lt_of_imp (fun p => decide (p ∉ stack)) (fun p => decide (p ∉ stack ++ [(n, b)])) _ _ (n, b)
  · have := findElement_mem hf
    simp only [pairNames, List.mem_flatMap]
    exact ⟨n, this, by cases b <;> simp⟩
  · simpa using hs
  · simp
  · intro x hx
    simp only [List.mem_append, List.mem_singleton, not_or, decide_eq_true_eq] at hx ⊢
    exact hx.1

/-- The children a row descends into: not the element itself, not an aliased element, not `plugin` when projecting.
    `none` = `KeyError` (a child naming no element). -/
def tableChildren (s : Schema N) (e : Element N) (project : Bool) : Option (List (Child N)) :=
  (memberChildren e.members).foldr (fun c acc =>
    match acc, findElement s c.name with
    | none, _ => none
    | _, none => none
    | some l, some t =>
      if c.name ≠ e.name ∧ ¬ hasFacet t.facets "alias" ∧ ¬ (project ∧ c.name = "plugin") then some (c :: l) else some l)
    (some [])

set_option linter.unusedVariables false in
mutual
/-- `visit(element, card, indent, project)`: the rows it emits, as a tree.  Unbounded recursion (an element below
    itself with the same projection) is Python's `RecursionError`. -/
def visitNode (s : Schema N) (name : String) (card : Txt) (project : Bool) (stack : List (String × Bool)) :
    Except GenErr TNode :=
  if hs : (name, project) ∈ stack then .error .recursionError
  else
    match hf : findElement s name with
    | none => .error .keyError
    | some e =>
      let attrs0 := expandedAttrs s e.members
      let attrs := if project then projectAttrs attrs0 else attrs0
      let names := attrNames attrs
      match elementConstraints s e with
      | .error x => .error x
      | .ok cons =>
        let rowCons := (cons.filter fun c => c.bundles.all fun b => b.all fun n => n.toList ∈ names).map
          fun c => (verbChar c.kind, conSpec c)
        match tableChildren s e project with
        | none => .error .keyError
        | some kids =>
          match visitKids s name (name = "default") project stack kids with
          | .error x => .error x
          | .ok ks => .ok (.mk (xmlName e) card names rowCons ks)
termination_by (unseen s stack, 0)
decreasing_by
  have := unseen_lt hf hs
  exact Prod.Lex.left _ _ this

def visitKids (s : Schema N) (name : String) (isDefault : Bool) (project : Bool) (stack : List (String × Bool)) :
    List (Child N) → Except GenErr (List TNode)
  | [] => .ok []
  | c :: cs =>
    let childProject := project || (isDefault && !(startsWith c.name.toList (L "default_")))
    match visitNode s c.name (cardStr c.card) childProject (stack ++ [(name, project)]) with
    | .error x => .error x
    | .ok n =>
      match visitKids s name isDefault project stack cs with
      | .error x => .error x
      | .ok ns => .ok (n :: ns)
termination_by cs => (unseen s (stack ++ [(name, project)]), cs.length + 1)
decreasing_by
  all_goals first
    | (apply Prod.Lex.right; simp)
    | (apply Prod.Lex.right; omega)
end

/-- Row layer of the grammar table. -/
def tableTree (s : Schema N) : Except GenErr TNode := visitNode s "mujoco" ['!'] false []

/-! ### flattening (`out.extend` order) and rendering -/

inductive TItem where
  | row (indent : Nat) (parts : List Txt) (cons : List (Char × Txt))
  | opn (indent : Nat)
  | cls (indent : Nat)
  | blank
  deriving DecidableEq

mutual
def flatNode (indent : Nat) : TNode → List TItem
  | .mk xml card attrs cons kids =>
    .row indent (xml :: card :: attrs) cons ::
      (match kids with
       | [] => []
       | k :: ks => .opn indent :: flatKids indent (k :: ks) ++ [.cls indent])
def flatKids (indent : Nat) : List TNode → List TItem
  | [] => []
  | k :: ks => flatNode (indent + 4) k ++ (if indent = 0 then [.blank] else []) ++ flatKids indent ks
end

def tableWidth : Nat := 100

/-- The loop of `_wrap_row` after the first part. -/
def wrapGo (indent : Nat) (line : Txt) : List Txt → List Txt
  | [] => [line ++ (L "},")]
  | p :: ps =>
    let cand := line ++ (L ", ") ++ p
    if cand.length + 2 > tableWidth then (line ++ [',']) :: wrapGo indent (spaces (indent + 4) ++ p) ps
    else wrapGo indent cand ps

/-- `_wrap_row(parts, indent)` (`parts` are already quoted). -/
def wrapRow (indent : Nat) : List Txt → List Txt
  | [] => []       -- parts[0] always exists
  | p :: ps => wrapGo indent (spaces indent ++ '{' :: p) ps

def itemLines : TItem → List Txt
  | .row i parts _ => wrapRow i (parts.map quote)
  | .opn i => [spaces i ++ (L "{\"<\"},")]
  | .cls i => [spaces i ++ (L "{\">\"},")]
  | .blank => [[]]

/-- The `(row_index, kind, spec)` triples: `count` numbers rows and nesting markers, not blank lines. -/
def conRows : Nat → List TItem → List (Nat × Char × Txt)
  | _, [] => []
  | n, .row _ _ cons :: r => cons.map (fun c => (n, c.1, c.2)) ++ conRows (n + 1) r
  | n, .opn _ :: r => conRows (n + 1) r
  | n, .cls _ :: r => conRows (n + 1) r
  | n, .blank :: r => conRows n r

def conLine (c : Nat × Char × Txt) : Txt :=
  (L "  {") ++ natStr c.1 ++ (L ", '") ++ [c.2.1] ++ (L "', ") ++ quote c.2.2 ++ (L "},")

def tableHeader : Txt := "// Copyright 2026 DeepMind Technologies Limited
//
// Licensed under the Apache License, Version 2.0 (the \"License\");
// you may not use this file except in compliance with the License.
// You may obtain a copy of the License at
//
//     http://www.apache.org/licenses/LICENSE-2.0
//
// Unless required by applicable law or agreed to in writing, software
// distributed under the License is distributed on an \"AS IS\" BASIS,
// WITHOUT WARRANTIES OR CONDITIONS OF ANY KIND, either express or implied.
// See the License for the specific language governing permissions and
// limitations under the License.

// GENERATED FILE, DO NOT EDIT. Generated from src/xml/mjcf.schema by
// doc/generate/generate_mjcf_table.py; test/doc/doc_test.py checks freshness.
//
// The MJCF grammar table consumed by mjXSchema: rows of {name, cardinality,
// attributes...} with {\"<\"}/{\">\"} nesting markers. worldbody, frame and
// replicate have no rows: mjXSchema::NameMatch validates them against the
// body row (see the alias= facets in mjcf.schema).

// clang-format off
".toList

def tableOpen : Txt := (L "std::vector<const char*> MJCF[] = {\n")
def tableMidRest : Txt := ";
// clang-format on

const int nMJCF = sizeof(MJCF) / sizeof(MJCF[0]);

// presence constraints, indexed into MJCF[]; enforced by
// mjXSchema::Check. spec: attribute bundles, space-joined,
// '|'-separated; kind: e=exclusive t=together r=requires o=oneof
// clang-format off
const mjXConstraintDef MJCF_constraints[] = {\n".toList
def tableMid : Txt := '\n' :: '}' :: tableMidRest
def tableEnd : Txt := "\n};
// clang-format on

const int nMJCF_constraints = sizeof(MJCF_constraints) / sizeof(MJCF_constraints[0]);\n".toList

def renderTable (items : List TItem) : Txt :=
  tableHeader ++ tableOpen ++ joinNL (items.flatMap itemLines) ++ tableMid
    ++ joinNL ((conRows 0 items).map conLine) ++ tableEnd

def genTable (s : Schema N) : Except GenErr Txt :=
  match tableTree s with
  | .error e => .error e
  | .ok t => .ok (renderTable (flatNode 0 t))

/-! ## `generate_default_table` -/

/-- `parse_spec_structs(...)`: struct name -> field -> (ctype, dim). -/
abbrev Structs := List (Txt × List (Txt × Txt × Option Txt))

def lookup {β : Type} (l : List (Txt × β)) (k : Txt) : Option β := (l.find? (fun e => e.1 = k)).map (·.2)

/-- A row of a `kDefaults_*` array: `{attr, offsetof(spec, path), kind, len, ndecl, unset, {values}}`. -/
structure DRow where
  attr : Txt
  spec : Txt
  path : Txt          -- `prefix + field`
  kind : Nat
  len : Txt
  unset : Bool
  values : List Txt   -- `ndecl` is `values.length` on every path of `_values` / `collect`
  deriving DecidableEq

def DRow.ndecl (r : DRow) : Nat := r.values.length

def kindByCtype (ct : Txt) : Option Nat :=
  if ct = (L "double") then some 0 else if ct = (L "float") then some 1 else if ct = (L "int") then some 2
  else if ct = (L "mjtByte") then some 3 else if ct = (L "mjtBool") then some 3
  else if ct = (L "mjtNum") then some 4 else none

def unsetSentinels : List (Txt × Txt) :=
  [("mjsBody", "ipos"), ("mjsBody", "fullinertia"), ("mjsGeom", "mass"), ("mjsGeom", "fromto"), ("mjsSite", "fromto"),
   ("mjStatistic", "meaninertia"), ("mjStatistic", "meanmass"), ("mjStatistic", "meansize"), ("mjStatistic", "extent"),
   ("mjStatistic", "center")].map fun p => (p.1.toList, p.2.toList)

/-- `_values(schema, attr)` for a declared default: the value expressions (`ndecl` is their number). -/
def defaultValues (s : Schema N) (a : Attr N) (d : Default) : Except GenErr (List Txt) :=
  match a.type with
  | .enum =>
    match d, a.target.bind (findEnum s) with
    | .str k, some e =>
      match (e.items.find? (fun kv => kv.1 = k)) with
      | some kv => .ok [(L "(double)") ++ kv.2.toList]
      | none => .error .keyError
    | _, _ => .error .unmodelled
  | .bool =>
    match d with
    | .str k => .ok [if k = "true" then ['1'] else ['0']]
    | _ => .ok [['0']]        -- `default == 'true'` is False for a non-string
  | _ =>
    match d with
    | .vec ds => .ok (ds.map pyRepr)
    | .num x => .ok [pyRepr x]
    | .str _ => .error .unmodelled  -- repr of a str default: excluded by the validator for numeric types

/-- Does this attribute type take part (`string/file/chars/ref/id/flags` are skipped)? -/
def defaultTyped : Ty → Bool
  | .string | .file | .chars | .ref | .id | .flags => false
  | _ => true

/-- The string key of a `field` facet; `none` when the payload is not a string (no struct field matches it). -/
def fieldKey (a : Attr N) : Option Txt :=
  match Facets.get a.facets "field" with
  | none => some a.name.toList
  | some (.str f) => some f.toList
  | some _ => none

structure DState where
  tables : List (Txt × List DRow)                  -- insertion-ordered dict
  seen : List ((Txt × Txt) × DRow × Bool)

def replaceFirst (rows : List DRow) (old new : DRow) : List DRow :=
  match rows with
  | [] => []
  | r :: rs => if r = old then new :: rs else r :: replaceFirst rs old new

def tablesUpdate (ts : List (Txt × List DRow)) (key : Txt) (f : List DRow → List DRow) : List (Txt × List DRow) :=
  ts.map fun e => if e.1 = key then (e.1, f e.2) else e

/-- `tables.setdefault(key, []).append(row)` -/
def tablesAppend (ts : List (Txt × List DRow)) (key : Txt) (row : DRow) : List (Txt × List DRow) :=
  if ts.any (fun e => e.1 = key) then tablesUpdate ts key (· ++ [row]) else ts ++ [(key, [row])]

/-- One attribute of one bound element in `collect`. -/
def collectAttr (s : Schema N) (spec key pfx : Txt) (fields : List (Txt × Txt × Option Txt)) (st : DState) (a : Attr N) :
    Except GenErr DState :=
  if ¬ defaultTyped a.type then .ok st else
  match (fieldKey a).bind (fun f => (lookup fields f).map (fun e => (f, e))) with
  | none => if hasFacet a.facets "reading" ∨ a.default.isNone then .ok st else .error .valueError
  | some (field, ctype, dim) =>
    if (kindByCtype ctype).isNone ∧ ¬ startsWith ctype (L "mjt") then
      (if a.default.isNone then .ok st else .error .valueError)
    else if endsWith ctype ['*'] then .ok st
    else
      let kind := (kindByCtype ctype).getD 2
      let len := dim.getD ['1']
      let unset := (key, field) ∈ unsetSentinels
      let vals : Except GenErr (List Txt) :=
        match a.default with
        | none => .ok []
        | some d => if unset then .error .valueError else defaultValues s a d
      match vals with
      | .error e => .error e
      | .ok values =>
        if values.length > 8 then .error .valueError else
        let row : DRow := ⟨a.name.toList, spec, pfx ++ field, kind, len, unset, values⟩
        match (st.seen.find? (fun e => e.1 = (key, field))).map (·.2) with
        | some (priorRow, priorDeclared) =>
          let declared : Bool := a.default.isSome
          if declared && priorDeclared
              && decide ((priorRow.ndecl, priorRow.unset, priorRow.values) ≠ (row.ndecl, row.unset, row.values))
          then .error .valueError
          else if !declared || priorDeclared then .ok st
          else .ok ⟨tablesUpdate st.tables key (fun rows => replaceFirst rows priorRow row),
                    ((key, field), row, true) :: st.seen⟩
        | none =>
          .ok ⟨tablesAppend st.tables key row, ((key, field), row, a.default.isSome) :: st.seen⟩

def foldE {α β : Type} (f : β → α → Except GenErr β) : β → List α → Except GenErr β
  | b, [] => .ok b
  | b, x :: xs => match f b x with
    | .error e => .error e
    | .ok b' => foldE f b' xs

def collectElement (s : Schema N) (structs : Structs) (st : DState) (e : Element N) : Except GenErr DState :=
  match e.spec with
  | none => .ok st
  | some spec0 =>
    if spec0 = "" then .ok st else
    let spec := spec0.toList
    let sub := Facets.get e.facets "field"
    let subOn := truthy sub
    let subStr : Txt := match sub with | some v => facetStr v | none => []
    let key := if subOn then spec ++ ['.'] ++ subStr else spec
    match lookup structs key with
    | none => .ok st
    | some fields =>
      let pfx := if subOn then subStr ++ ['.'] else []
      foldE (collectAttr s spec key pfx fields) st (expandedAttrs s e.members)

/-- Row layer: `collect(schema, structs)` -/
def defaultTables (s : Schema N) (structs : Structs) : Except GenErr (List (Txt × List DRow)) :=
  match foldE (collectElement s structs) ⟨[], []⟩ s.elements with
  | .error e => .error e
  | .ok st => .ok st.tables

def defaultHeader : Txt := "// Copyright 2026 DeepMind Technologies Limited
//
// Licensed under the Apache License, Version 2.0 (the \"License\");
// you may not use this file except in compliance with the License.
// You may obtain a copy of the License at
//
//     http://www.apache.org/licenses/LICENSE-2.0
//
// Unless required by applicable law or agreed to in writing, software
// distributed under the License is distributed on an \"AS IS\" BASIS,
// WITHOUT WARRANTIES OR CONDITIONS OF ANY KIND, either express or implied.
// See the License for the specific language governing permissions and
// limitations under the License.

// GENERATED FILE, DO NOT EDIT. Generated from src/xml/mjcf.schema by
// doc/generate/generate_default_table.py; test/doc/doc_test.py checks
// freshness.
//
// One row per bound numeric schema attribute -- total coverage, whether or
// not a default is declared. SchemaDefaultsTest compares every row against a
// freshly-constructed spec: declared values must match the C
// default-constructors, values beyond ndecl must be zero, and rows marked
// unset must hold the mjNAN sentinel. A nonzero constructor default with no
// schema declaration is therefore a test failure: the schema cannot silently
// under-declare. Rows are {attr, offset, kind, len, ndecl, unset, values};
// kind: 0=double 1=float 2=int 3=byte 4=mjtNum.

// clang-format off
struct mjXDefaultEntry {
  const char* attr;
  int offset;
  int kind;
  int len;
  int ndecl;
  int unset;
  double value[8];
};

struct mjXDefaultTable {
  const char* structname;
  const mjXDefaultEntry* entries;
  int n;
};

".toList

/-- `key.replace('.', '_')` -/
def dotsToUnderscore (k : Txt) : Txt := k.map fun c => if c = '.' then '_' else c

def arrayOf (key : Txt) : Txt := (L "kDefaults_") ++ dotsToUnderscore key

def dRowLine (r : DRow) : Txt :=
  (L "  {") ++ quote r.attr ++ (L ", (int)offsetof(") ++ r.spec ++ (L ", ") ++ r.path ++ (L "), ")
    ++ natStr r.kind ++ (L ", ") ++ r.len ++ (L ", ") ++ natStr r.ndecl ++ (L ", ")
    ++ (if r.unset then ['1'] else ['0']) ++ (L ", {")
    ++ (if r.values.isEmpty then ['0'] else joinWith (L ", ") r.values) ++ (L "}},")

def dTableLines (e : Txt × List DRow) : List Txt :=
  [(L "static const mjXDefaultEntry ") ++ arrayOf e.1 ++ (L "[] = {")] ++ e.2.map dRowLine ++ [(L "};"), []]

/-- `key.split('.')[0]` -/
def rootOf (key : Txt) : Txt := key.takeWhile (· ≠ '.')

def dIndexLine (key : Txt) : Txt :=
  (L "  {") ++ quote (rootOf key) ++ (L ", ") ++ arrayOf key ++ (L ", (int)(sizeof(") ++ arrayOf key
    ++ (L ") / sizeof(") ++ arrayOf key ++ (L "[0]))},")

def sortedTables (ts : List (Txt × List DRow)) : List (Txt × List DRow) :=
  (sortTxt (ts.map (·.1))).filterMap fun k => (lookup ts k).map fun rows => (k, rows)

def renderDefault (ts : List (Txt × List DRow)) : Txt :=
  let st := sortedTables ts
  joinNL ([defaultHeader] ++ st.flatMap dTableLines
    ++ [(L "static const mjXDefaultTable kDefaultTables[] = {")] ++ st.map (fun e => dIndexLine e.1)
    ++ [(L "};"),
        (L "static const int kDefaultTablesN = (int)(sizeof(kDefaultTables) / sizeof(kDefaultTables[0]));"),
        (L "// clang-format on")]) ++ ['\n']

def genDefault (s : Schema N) (structs : Structs) : Except GenErr Txt :=
  match defaultTables s structs with
  | .error e => .error e
  | .ok ts => .ok (renderDefault ts)

/-! The long text constants are opaque to the elaborator (nothing is ever proved by computing with them). -/
attribute [irreducible] mapHeader mapFooter tableHeader tableMidRest tableEnd defaultHeader

end MjProof.SchemaGen
