import MjProof.Num
import MjProof.Gen.UserUtil
/-
Hand model of the orientation / frame utilities of the model compiler (C35, C36):

* `normvec3`, `normvec4`   — `mjuu_normvec` (user_util.cc) for n = 3, 4: squared norm accumulated from 0,
                             no change when it is below `mjEPS`, division only when `|‖v‖ − 1| > mjEPS`.
* `mulquat`                — `mjuu_mulquat`: Hamilton product followed by `mjuu_normvec(tmp, 4)`.
* `rotVecQuat`             — `mjuu_rotVecQuat` with its two short-cuts (zero vector, identity quaternion).
* `z2quat`, `frame2quat`   — `mjuu_z2quat`, `mjuu_frame2quat` (four branches on the largest component).
* `frameaccum`, `frameaccumChild`, `frameinvert` — the frame accumulators.
* `resolveOrientation`     — `ResolveOrientation` (user_objects.cc): axisangle / xyaxes / zaxis / euler with
                             the `degree` flag and the three letters of `eulerseq` (lower case = moving axes,
                             post-multiplication; upper case = fixed axes, pre-multiplication).

The straight-line kernels `mjuu_quat2mat`, `mjuu_mulvecmat`, `mjuu_crossvec`, `mjuu_dot3`, `mjuu_localaxis`
are NOT re-modelled: the definitions generated from user_util.cc by translate/c35_userutil.py
(`MjProof.Gen.*`) are used directly.  The functions above are refused by the translator (reasons in
Gen/userutil_manifest.json) and are tied to the real code by the bitwise differential of checks/c35.py and
checks/c36.py (`mjs_resolveOrientation`, compiled frames).

`π` is a parameter of every function that uses `mjPI`: the driver passes the literal of mjmodel.h
(`mjPI`), the theorems instantiate it with `Real.pi`.  Generic over `MjNum α`; core Lean only.
-/
namespace MjProof.Orient
open MjProof MjProof.Gen

variable {α : Type} [MjNum α]

/-- integer literal -/
abbrev L (n : Int) : α := MjNum.ofInt n

/-- `mjEPS = 1E-14` (user_util.h) -/
def mjEPS : α := MjNum.ofSci 1 true 14
/-- `mjPI = 3.14159265358979323846` (mjmodel.h), as the decimal literal of the header -/
def mjPI : α := MjNum.ofSci 314159265358979323846 true 20

structure V3 (α : Type) where
  x : α
  y : α
  z : α

structure Q (α : Type) where
  w : α
  x : α
  y : α
  z : α

/-- row-major 3×3 matrix `m[0..8]` -/
structure M9 (α : Type) where
  m0 : α
  m1 : α
  m2 : α
  m3 : α
  m4 : α
  m5 : α
  m6 : α
  m7 : α
  m8 : α

def qunit : Q α := ⟨L 1, L 0, L 0, L 0⟩
def v3zero : V3 α := ⟨L 0, L 0, L 0⟩

/-- `mjuu_quat2mat` (generated kernel) -/
def quat2mat (q : Q α) : M9 α :=
  let r := mjuu_quat2mat q.w q.x q.y q.z
  ⟨r.1, r.2.1, r.2.2.1, r.2.2.2.1, r.2.2.2.2.1, r.2.2.2.2.2.1, r.2.2.2.2.2.2.1, r.2.2.2.2.2.2.2.1, r.2.2.2.2.2.2.2.2⟩

/-- `mjuu_mulvecmat(res, vec, mat)`: `res = mat * vec` (generated kernel) -/
def mulvecmat (v : V3 α) (m : M9 α) : V3 α :=
  let r := mjuu_mulvecmat v.x v.y v.z m.m0 m.m1 m.m2 m.m3 m.m4 m.m5 m.m6 m.m7 m.m8
  ⟨r.1, r.2.1, r.2.2⟩

/-- `mjuu_crossvec(a, b, c)`: `a = b × c` (generated kernel) -/
def crossvec (b c : V3 α) : V3 α :=
  let r := mjuu_crossvec b.x b.y b.z c.x c.y c.z
  ⟨r.1, r.2.1, r.2.2⟩

/-- `mjuu_dot3` (generated kernel) -/
def dot3 (a b : V3 α) : α := mjuu_dot3 a.x a.y a.z b.x b.y b.z

/-- `mjuu_mulmat(res, A, B)` -/
def mulmat (a b : M9 α) : M9 α :=
  ⟨a.m0 * b.m0 + a.m1 * b.m3 + a.m2 * b.m6, a.m0 * b.m1 + a.m1 * b.m4 + a.m2 * b.m7, a.m0 * b.m2 + a.m1 * b.m5 + a.m2 * b.m8,
   a.m3 * b.m0 + a.m4 * b.m3 + a.m5 * b.m6, a.m3 * b.m1 + a.m4 * b.m4 + a.m5 * b.m7, a.m3 * b.m2 + a.m4 * b.m5 + a.m5 * b.m8,
   a.m6 * b.m0 + a.m7 * b.m3 + a.m8 * b.m6, a.m6 * b.m1 + a.m7 * b.m4 + a.m8 * b.m7, a.m6 * b.m2 + a.m7 * b.m5 + a.m8 * b.m8⟩

/-- `mjuu_transposemat` -/
def transposemat (a : M9 α) : M9 α := ⟨a.m0, a.m3, a.m6, a.m1, a.m4, a.m7, a.m2, a.m5, a.m8⟩

/-- `mjuu_normvec(vec, 3)`: returns the (possibly) normalised vector and the return value -/
def normvec3 (v : V3 α) : V3 α × α :=
  let nrm : α := ((L 0 + v.x * v.x) + v.y * v.y) + v.z * v.z
  if nrm < mjEPS then (v, L 0) else
  let n := MjNum.sqrt nrm
  if mjEPS < MjNum.abs (n - L 1) then (⟨v.x / n, v.y / n, v.z / n⟩, n) else (v, n)

/-- `mjuu_normvec(vec, 4)` -/
def normvec4 (q : Q α) : Q α × α :=
  let nrm : α := (((L 0 + q.w * q.w) + q.x * q.x) + q.y * q.y) + q.z * q.z
  if nrm < mjEPS then (q, L 0) else
  let n := MjNum.sqrt nrm
  if mjEPS < MjNum.abs (n - L 1) then (⟨q.w / n, q.x / n, q.y / n, q.z / n⟩, n) else (q, n)

/-- the Hamilton product as `mjuu_mulquat` writes it (before its normalisation) -/
def hamilton (a b : Q α) : Q α :=
  ⟨a.w * b.w - a.x * b.x - a.y * b.y - a.z * b.z,
   a.w * b.x + a.x * b.w + a.y * b.z - a.z * b.y,
   a.w * b.y - a.x * b.z + a.y * b.w + a.z * b.x,
   a.w * b.z + a.x * b.y - a.y * b.x + a.z * b.w⟩

/-- `mjuu_mulquat(res, qa, qb)` -/
def mulquat (a b : Q α) : Q α := (normvec4 (hamilton a b)).1

/-- `mjuu_rotVecQuat(res, vec, quat)` -/
def rotVecQuat (v : V3 α) (q : Q α) : V3 α :=
  if MjNum.beq v.x (L 0) && MjNum.beq v.y (L 0) && MjNum.beq v.z (L 0) then v3zero
  else if MjNum.beq q.w (L 1) && MjNum.beq q.x (L 0) && MjNum.beq q.y (L 0) && MjNum.beq q.z (L 0) then v
  else
    let t0 := q.w * v.x + q.y * v.z - q.z * v.y
    let t1 := q.w * v.y + q.z * v.x - q.x * v.z
    let t2 := q.w * v.z + q.x * v.y - q.y * v.x
    ⟨v.x + L 2 * (q.y * t2 - q.z * t1), v.y + L 2 * (q.z * t0 - q.x * t2), v.z + L 2 * (q.x * t1 - q.y * t0)⟩

/-- `mjuu_z2quat(quat, vec)`; the incoming `quat[0]` is overwritten, `quat[1..3]` are written by the cross product -/
def z2quat (vec : V3 α) : Q α :=
  let c := crossvec ⟨L 0, L 0, L 1⟩ vec
  let (a, s) := normvec3 c
  let a : V3 α := if s < MjNum.ofSci 1 true 10 then ⟨L 1, L 0, L 0⟩ else a
  let ang := MjNum.atan2 s vec.z
  ⟨MjNum.cos (ang / L 2), a.x * MjNum.sin (ang / L 2), a.y * MjNum.sin (ang / L 2), a.z * MjNum.sin (ang / L 2)⟩

/-- `mjuu_frame2quat(quat, x, y, z)`: the axes are the matrix *columns*; `mat[c][r]` indexing in the C code -/
def frame2quat (x y z : V3 α) : Q α :=
  let h : α := MjNum.ofSci 5 true 1
  let f : α := MjNum.ofSci 25 true 2
  let q : Q α :=
    if L 0 < x.x + y.y + z.z then
      let q0 := h * MjNum.sqrt (L 1 + x.x + y.y + z.z)
      ⟨q0, f * (y.z - z.y) / q0, f * (z.x - x.z) / q0, f * (x.y - y.x) / q0⟩
    else if y.y < x.x ∧ z.z < x.x then
      let q1 := h * MjNum.sqrt (L 1 + x.x - y.y - z.z)
      ⟨f * (y.z - z.y) / q1, q1, f * (y.x + x.y) / q1, f * (z.x + x.z) / q1⟩
    else if z.z < y.y then
      let q2 := h * MjNum.sqrt (L 1 - x.x + y.y - z.z)
      ⟨f * (z.x - x.z) / q2, f * (y.x + x.y) / q2, q2, f * (z.y + y.z) / q2⟩
    else
      let q3 := h * MjNum.sqrt (L 1 - x.x - y.y + z.z)
      ⟨f * (x.y - y.x) / q3, f * (z.x + x.z) / q3, f * (z.y + y.z) / q3, q3⟩
  (normvec4 q).1

/-- `mjuu_frameaccum(pos, quat, childpos, childquat)`: returns the updated `(pos, quat)` -/
def frameaccum (pos : V3 α) (quat : Q α) (cpos : V3 α) (cquat : Q α) : V3 α × Q α :=
  let mat := quat2mat quat
  let vec := mulvecmat cpos mat
  (⟨pos.x + vec.x, pos.y + vec.y, pos.z + vec.z⟩, mulquat quat cquat)

/-- `mjuu_frameaccumChild(pos, quat, childpos, childquat)`: the same composition, stored in the child -/
def frameaccumChild (pos : V3 α) (quat : Q α) (cpos : V3 α) (cquat : Q α) : V3 α × Q α :=
  frameaccum pos quat cpos cquat

/-- `mjuu_frameinvert` (generated kernel) -/
def frameinvert (pos : V3 α) (quat : Q α) : V3 α × Q α :=
  let r := mjuu_frameinvert pos.x pos.y pos.z quat.w quat.x quat.y quat.z
  (⟨r.1, r.2.1, r.2.2.1⟩, ⟨r.2.2.2.1, r.2.2.2.2.1, r.2.2.2.2.2.1, r.2.2.2.2.2.2⟩)

/-! ### `ResolveOrientation` -/

inductive EAxis where
  | x | y | z
  deriving DecidableEq, Repr

/-- one letter of `eulerseq`: the axis and whether it is lower case (moving axes) -/
structure ELetter where
  ax : EAxis
  moving : Bool
  deriving DecidableEq, Repr

/-- the letters accepted by `ResolveOrientation` (`x y z X Y Z` by ASCII code) -/
def ELetter.ofCode (c : Nat) : Option ELetter :=
  if c = 120 then some ⟨.x, true⟩ else if c = 121 then some ⟨.y, true⟩ else if c = 122 then some ⟨.z, true⟩
  else if c = 88 then some ⟨.x, false⟩ else if c = 89 then some ⟨.y, false⟩ else if c = 90 then some ⟨.z, false⟩
  else none

/-- `qrot` of one Euler angle: `{cos(e/2), 0, 0, 0}` with `sin(e/2)` in the slot of the axis -/
def eulerRot (ax : EAxis) (e : α) : Q α :=
  let c := MjNum.cos (e / L 2)
  let s := MjNum.sin (e / L 2)
  match ax with
  | .x => ⟨c, s, L 0, L 0⟩
  | .y => ⟨c, L 0, s, L 0⟩
  | .z => ⟨c, L 0, L 0, s⟩

/-- one iteration of the Euler loop -/
def eulerStep (quat : Q α) (l : ELetter) (e : α) : Q α :=
  if l.moving then mulquat quat (eulerRot l.ax e) else mulquat (eulerRot l.ax e) quat

/-- degrees to radians exactly as written: `x / 180.0 * mjPI` -/
def toRad (pi : α) (degree : Bool) (x : α) : α := if degree then x / L 180 * pi else x

/-- the alternative orientation specifications of `mjsOrientation` -/
inductive OrientSpec (α : Type) where
  | quat
  | axisangle (axis : V3 α) (angle : α)
  | xyaxes (x y : V3 α)
  | zaxis (z : V3 α)
  | euler (e0 e1 e2 : α)

/-- `ResolveOrientation(quat, degree, sequence, orient)`: `.error msg` is the returned message, `.ok q` the
    value left in `quat` (unchanged for `mjORIENTATION_QUAT`).  `seq` holds the three ASCII codes of `sequence`;
    a letter is only inspected when the Euler branch reaches it, as in the C loop. -/
def resolveOrientation (pi : α) (quat : Q α) (degree : Bool) (seq : Nat × Nat × Nat) : OrientSpec α → Except String (Q α)
  | .quat => .ok quat
  | .axisangle axis angle =>
    let ang := toRad pi degree angle
    let (a, n) := normvec3 axis
    if n < mjEPS then .error "axisangle too small" else
    let ang2 := ang / L 2
    .ok ⟨MjNum.cos ang2, MjNum.sin ang2 * a.x, MjNum.sin ang2 * a.y, MjNum.sin ang2 * a.z⟩
  | .xyaxes x y =>
    let (x, nx) := normvec3 x
    if nx < mjEPS then .error "xaxis too small" else
    let d := dot3 x y
    let y : V3 α := ⟨y.x - x.x * d, y.y - x.y * d, y.z - x.z * d⟩
    let (y, ny) := normvec3 y
    if ny < mjEPS then .error "yaxis too small" else
    let (z, nz) := normvec3 (crossvec x y)
    if nz < mjEPS then .error "cross(xaxis, yaxis) too small" else
    .ok (frame2quat x y z)
  | .zaxis z =>
    let (z, nz) := normvec3 z
    if nz < mjEPS then .error "zaxis too small" else .ok (z2quat z)
  | .euler e0 e1 e2 =>
    let bad : Except String (Q α) := .error "euler sequence can only contain x, y, z, X, Y, Z"
    match ELetter.ofCode seq.1 with
    | none => bad
    | some l0 =>
      let q := eulerStep qunit l0 (toRad pi degree e0)
      match ELetter.ofCode seq.2.1 with
      | none => bad
      | some l1 =>
        let q := eulerStep q l1 (toRad pi degree e1)
        match ELetter.ofCode seq.2.2 with
        | none => bad
        | some l2 =>
          let q := eulerStep q l2 (toRad pi degree e2)
          .ok (normvec4 q).1

end MjProof.Orient
