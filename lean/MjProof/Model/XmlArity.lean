import MjProof.Model.XmlDefaults
/-
Model of the hand-written VARIABLE-ARITY writer branch of the MJCF writer (C32): tendon `springlength`, which holds a
pair and is printed with one or two values.

  * writer, `mjXWriter::OneTendon` (src/xml/xml_native_writer.cc):
        if (t[0] != t[1] || def[0] != def[1])  WriteAttr(elem, "springlength", 2, t, def);
        else                                     WriteAttr(elem, "springlength", 1, t, def);
    with `WriteAttr(..., trim = false)` of xml_util.cc (NaN skip, `SameVector` elision against the class default over
    the n values, NO trailing-default trim -- it is opt-in and this call does not ask for it --, print);
  * reader, `mjXReader::OneTendon` (src/xml/xml_native_reader.cc):
        if (ReadAttr(elem, "springlength", 2, t, text, false, false) == 1)  t[1] = t[0];
    on an object initialised from the default class (absent / empty attribute: the class pair is kept).

The point of the `def[0] != def[1]` clause: with a non-degenerate class pair a single-valued tendon must be compared (and
trimmed) against BOTH class values, otherwise partial coincidence with the class default elides the attribute.
Core Lean only.
-/
namespace MjProof.XmlArity
open MjProof.XmlDefaults

variable {α : Type}

/-- number of values the writer prints: `(t0 != t1 || d0 != d1) ? 2 : 1` -/
def springLen (S : Scalar α) (v d : α × α) : Nat := if S.eqb v.1 v.2 && S.eqb d.1 d.2 then 1 else 2

/-- `WriteAttr(elem, name, n, data, def, trim = false)`: `none` = attribute not written -/
def writeAttr (S : Scalar α) (xs ds : List α) : Option (List α) :=
  if xs.any S.isNaN then none else
  if sameVec S xs ds then none else
  if xs.isEmpty then none else some (xs.map S.quant)

def writeSpring (S : Scalar α) (v d : α × α) : Option (List α) :=
  let n := springLen S v d
  writeAttr S ([v.1, v.2].take n) ([d.1, d.2].take n)

/-- the variant that looks at the tendon's own pair only (what the clause guards against) -/
def writeSpringOwnPairOnly (S : Scalar α) (v d : α × α) : Option (List α) :=
  let n := if S.eqb v.1 v.2 then 1 else 2
  writeAttr S ([v.1, v.2].take n) ([d.1, d.2].take n)

/-- reader on an object holding the class pair `d`; `none` = reader error (too much data) -/
def readSpring (d : α × α) : Option (List α) → Option (α × α)
  | none => some d
  | some [] => some d
  | some [x] => some (x, x)
  | some [x, y] => some (x, y)
  | some _ => none

end MjProof.XmlArity
