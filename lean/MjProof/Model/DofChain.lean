/-
C07 — executable model of the sparse dof chains behind the sparse Jacobians (`src/engine/engine_core_util.c`):
`mj_mergeChain(m, chain, b1, b2, flg_skipcommon)` and the general case of `mj_bodyChain`.  Core Lean only.

The C code walks `dof_parentid` from the last dof of each body's weld root towards the tree root:

    da1 = body_dofadr[b1] + body_dofnum[b1] - 1;   da2 = ... b2 ...            (b_i := body_weldid[b_i] first;
    while (da1 >= 0 || da2 >= 0) {                                             both dofnum == 0: return 0)
      da = max(da1, da2);
      if (flg_skipcommon && da1 == da && da2 == da) break;
      chain[NV++] = da;
      if (da1 == da) da1 = dof_parentid[da1];
      if (da2 == da) da2 = dof_parentid[da2];
    }
    reverse chain

Dof indices are *shifted by one* here (`0` = "no dof" = every negative C index, `k + 1` = dof `k`), so that the parent
map is a total function `par : Nat → Nat`; `Drivers/C07.lean` does the shifting from the model's integer arrays and
rejects arrays in which a parent index is not smaller than the dof itself.  The loop is given fuel `s1 + s2 + 1`
(each round strictly decreases `s1 + s2` on such arrays; `Props/C07.lean` proves that this fuel never cuts the walk).
-/
namespace MjProof.DofChain

/-- the loop of `mj_mergeChain`, emitting dofs in the order the C code writes them (decreasing), before the reversal -/
def mergeDesc (par : Nat → Nat) (skip : Bool) : Nat → Nat → Nat → List Nat
  | 0, _, _ => []
  | fuel + 1, s1, s2 =>
    let s := max s1 s2
    if s = 0 then []
    else if skip && s1 == s && s2 == s then []
    else (s - 1) :: mergeDesc par skip fuel (if s1 = s then par s1 else s1) (if s2 = s then par s2 else s2)

/-- `mj_mergeChain` on shifted last-dof indices: the increasing chain -/
def mergeChain (par : Nat → Nat) (skip : Bool) (s1 s2 : Nat) : List Nat :=
  (mergeDesc par skip (s1 + s2 + 1) s1 s2).reverse

/-- general case of `mj_bodyChain`: the ancestor dofs of one body, increasing -/
def bodyChain (par : Nat → Nat) (s : Nat) : List Nat := mergeChain par false s 0

/-- shifted parent map from `dof_parentid` (−1 = none) -/
def parOf (dofParent : Array Int) : Nat → Nat := fun s =>
  if s = 0 then 0 else
    match dofParent[s - 1]? with
    | some p => if p < 0 then 0 else p.toNat + 1
    | none => 0

/-- every parent index is smaller than the dof itself (true for every compiled model) -/
def parOk (dofParent : Array Int) : Bool :=
  (List.range dofParent.size).all (fun k => match dofParent[k]? with
    | some p => decide (-1 ≤ p ∧ p < (k : Int))
    | none => false)

/-- shifted last dof of a body's weld root, computed as the C code does (`dofadr + dofnum - 1`, negative = none) -/
def lastDof (weld dofnum dofadr : Array Int) (b : Nat) : Option Nat := do
  let w ← weld[b]?
  if w < 0 then none else
  let n ← dofnum[w.toNat]?
  let a ← dofadr[w.toNat]?
  let da := a + n - 1
  pure (if da < 0 then 0 else da.toNat + 1)

end MjProof.DofChain
