/-
C40 — model of `mujoco::GlobalTable<T>` (src/engine/engine_global_table.h), core Lean only.

Shared state (what the C++ object holds):
  * `mem`    the linked list of `TableBlock`s (`first_block_` and the `next` chain); every block is an
             array of `blockSize` cells.  A cell has two *fields* that are written one at a time by
             `CopyObject` (so a half-copied object is representable: `key`/`payload` = `none` means
             "still the zero-initialised bytes of `objects{}`").
  * `count`  `count_` (the atomic published counter);
  * `mutex`  the owner of `mutex_` (or `none`); each thread has the `thread_local` re-entrancy counter
             `depth` of `ReentrantWriteLock`.
Ghost state (never read by `step` to decide anything): `tbl` (the list of published objects) and `lin`
(the linearisation order of the registrations).

Threads run lists of operations; `step s t` performs ONE atomic action of thread `t` (sequentially
consistent interleaving: an execution is any sequence of thread ids).  The writer is split exactly at
its shared-memory accesses: lock, `count_.load`, one scanned slot per step, block allocation, one field
of the copy per step, `count_.store`, unlock.  Readers: `count_.load`, then one slot read per step.
A blocked thread (mutex held by somebody else) leaves the state unchanged.

Abstractions (stated, and covered only by the differential runs): readers address slot `i` by `i / blockSize`,
`i % blockSize` (the code walks the `next` chain; the writer's walk IS modelled with the code's
`(block, local_idx)` pair); `GetByKeyUnsafe`'s trailing walk over `next` pointers after the last scanned
slot reads no cell and is not a step here (in C++ it is a data race on the non-atomic `next`, outside the
SC abstraction).

`Pc.fault` models a null-pointer dereference in the writer's block walk (`block = block->next` followed by
`block->objects[..]`): the theorems show it is unreachable.
-/
namespace MjProof.GlobalTable

/-- `TableBlock<T>::kBlockSize` (checked against the header on every run by translate/c40_orders.py). -/
abbrev blockSize : Nat := 15
/-- number of separately written fields of an object (key, payload) -/
abbrev nFields : Nat := 2

structure Obj where
  key : String
  payload : Nat
deriving DecidableEq, Repr, Inhabited

/-- `std::tolower` on every char (C locale; ASCII names only are exercised). -/
def lower (s : String) : List Char := s.toList.map Char.toLower
/-- `CaseInsensitiveEqual`: same length and equal after `tolower` (equal lengths follow from `map`). -/
def keyEq (a b : String) : Bool := lower a == lower b

structure Cell where
  key : Option String
  payload : Option Nat
deriving DecidableEq, Repr, Inhabited

def Cell.empty : Cell := ⟨none, none⟩
def Cell.full (o : Obj) : Cell := ⟨some o.key, some o.payload⟩
/-- what `ObjectKey` reads from the cell: zero-initialised memory is the empty key -/
def Cell.keyStr (c : Cell) : String := match c.key with | some k => k | none => ""
/-- the object a reader of the raw memory sees (zero-initialised fields read as ""/0) -/
def Cell.toObj (c : Cell) : Obj := ⟨c.keyStr, match c.payload with | some p => p | none => 0⟩
def Cell.complete (c : Cell) : Bool := c.key.isSome && c.payload.isSome

abbrev Mem := List (List Cell)
def emptyBlock : List Cell := List.replicate blockSize Cell.empty

/-- `block->objects[l]` where `block` is the `b`-th block of the chain (`none`: null block / out of range) -/
def cellBL (mem : Mem) (b l : Nat) : Option Cell := (mem[b]?).bind (fun blk => blk[l]?)
/-- slot `i` of the table -/
def cellAt (mem : Mem) (i : Nat) : Option Cell := cellBL mem (i / blockSize) (i % blockSize)
def setBL (mem : Mem) (b l : Nat) (c : Cell) : Mem := mem.modify b (fun blk => blk.set l c)
/-- write field `j` (0 = payload, 1 = key) of an object into a cell -/
def Cell.writeField (c : Cell) (j : Nat) (o : Obj) : Cell :=
  if j = 0 then { c with payload := some o.payload } else { c with key := some o.key }

/-- one `AppendIfUnique` call; `allocFail` / `copyFail` are the environment's choices for
    `new(std::nothrow)` returning null and `CopyObject` returning false after writing `j` fields -/
structure RegOp where
  obj : Obj
  allocFail : Bool := false
  copyFail : Option Nat := none
deriving DecidableEq, Repr, Inhabited

inductive Op
  | reg (r : RegOp)        -- AppendIfUnique
  | count                  -- count()
  | getSlot (i : Int)      -- GetAtSlot(i)
  | getKey (k : String)    -- GetByKey(k, &slot)
  | lockExt                -- LockExclusively() scope opened (mj_loadAllPluginLibraries)
  | unlockExt              -- ... and closed
deriving DecidableEq, Repr, Inhabited

inductive Res
  | slot (i : Nat)                         -- AppendIfUnique returned slot i
  | conflict (i : Nat)                     -- "... is already registered" (mju_error), clash with slot i
  | allocFailed | copyFailed               -- the other two error returns
  | count (n : Nat)
  | atSlot (n : Nat) (c : Option Cell)     -- GetAtSlot: loaded n, pointee (none = nullptr)
  | byKey (n : Nat) (r : Option (Nat × Cell))
  | unit
deriving DecidableEq, Repr, Inhabited

inductive Pc
  | idle
  | fault
  | wLock (r : RegOp)
  | wLoad (r : RegOp)
  | wScan (r : RegOp) (cnt i b l : Nat)
  | wAlloc (r : RegOp) (cnt b l : Nat)
  | wCopy (r : RegOp) (cnt b l j : Nat)
  | wPublish (r : RegOp) (cnt : Nat)
  | wUnlock (r : RegOp) (res : Res)
  | cLoad
  | rLoad (i : Int)
  | rRead (i : Int) (n : Nat)
  | kLoad (k : String)
  | kScan (k : String) (n j : Nat)
deriving DecidableEq, Repr, Inhabited

structure Thread where
  pc : Pc := .idle
  todo : List Op := []
  done : List (Op × Res) := []     -- most recent first
  depth : Nat := 0                 -- ReentrantWriteLock::LockCountOnCurrentThread()
deriving Repr, Inhabited

structure LinEv where
  tid : Nat
  op : RegOp
  res : Res
deriving DecidableEq, Repr, Inhabited

structure Sys where
  mem : Mem
  count : Nat
  mutex : Option Nat
  thr : Nat → Thread
  tbl : List Obj        -- ghost
  lin : List LinEv      -- ghost (oldest first)

def init (progs : Nat → List Op) : Sys :=
  { mem := [emptyBlock], count := 0, mutex := none, thr := fun t => { todo := progs t }, tbl := [], lin := [] }

def setThr (f : Nat → Thread) (t : Nat) (x : Thread) : Nat → Thread := fun u => if u = t then x else f u

/-- `ObjectEqual` is a parameter (plugins compare names exactly, resource providers case-insensitively). -/
abbrev ObjEq := Obj → Obj → Bool

def dispatch (s : Sys) (t : Nat) (th : Thread) : Sys :=
  match th.todo with
  | [] => s
  | op :: rest =>
    match op with
    | .reg r => { s with thr := setThr s.thr t { th with pc := .wLock r, todo := rest } }
    | .count => { s with thr := setThr s.thr t { th with pc := .cLoad, todo := rest } }
    | .getSlot i => { s with thr := setThr s.thr t { th with pc := .rLoad i, todo := rest } }
    | .getKey k => { s with thr := setThr s.thr t { th with pc := .kLoad k, todo := rest } }
    | .lockExt =>
      if 0 < th.depth then
        { s with thr := setThr s.thr t { th with todo := rest, depth := th.depth + 1, done := (op, .unit) :: th.done } }
      else if s.mutex = none then
        { s with mutex := some t,
                 thr := setThr s.thr t { th with todo := rest, depth := 1, done := (op, .unit) :: th.done } }
      else s
    | .unlockExt =>
      if th.depth = 0 then
        { s with thr := setThr s.thr t { th with todo := rest, done := (op, .unit) :: th.done } }
      else
        { s with mutex := if th.depth = 1 then none else s.mutex,
                 thr := setThr s.thr t { th with todo := rest, depth := th.depth - 1, done := (op, .unit) :: th.done } }

/-- one atomic action of thread `t` -/
def step (eqv : ObjEq) (s : Sys) (t : Nat) : Sys :=
  let th := s.thr t
  let goto (pc : Pc) : Sys := { s with thr := setThr s.thr t { th with pc := pc } }
  let finish (op : Op) (r : Res) : Sys :=
    { s with thr := setThr s.thr t { th with pc := .idle, done := (op, r) :: th.done } }
  match th.pc with
  | .idle => dispatch s t th
  | .fault => s
  -- ReentrantWriteLock constructor
  | .wLock r =>
    if 0 < th.depth then
      { s with thr := setThr s.thr t { th with pc := .wLoad r, depth := th.depth + 1 } }
    else if s.mutex = none then
      { s with mutex := some t, thr := setThr s.thr t { th with pc := .wLoad r, depth := 1 } }
    else s
  -- int count = count_.load(acquire); local_idx = 0; block = &first_block_
  | .wLoad r => goto (.wScan r s.count 0 0 0)
  -- one iteration of the duplicate scan
  | .wScan r cnt i b l =>
    if i < cnt then
      let b' := if l = blockSize then b + 1 else b
      let l' := if l = blockSize then 0 else l
      match cellBL s.mem b' l' with
      | none => goto .fault
      | some c =>
        if keyEq r.obj.key c.keyStr then
          if eqv r.obj c.toObj then
            { s with lin := s.lin ++ [⟨t, r, .slot i⟩],
                     thr := setThr s.thr t { th with pc := .wUnlock r (.slot i) } }
          else
            { s with lin := s.lin ++ [⟨t, r, .conflict i⟩],
                     thr := setThr s.thr t { th with pc := .wUnlock r (.conflict i) } }
        else goto (.wScan r cnt (i + 1) b' (l' + 1))
    else goto (.wAlloc r cnt b l)
  -- allocate a new block if the last allocated block is full
  | .wAlloc r cnt b l =>
    if l = blockSize then
      if s.mem.length ≤ b then goto .fault
      else if r.allocFail then
        -- block->next = nullptr; return -1
        { s with mem := s.mem.take (b + 1), lin := s.lin ++ [⟨t, r, .allocFailed⟩],
                 thr := setThr s.thr t { th with pc := .wUnlock r .allocFailed } }
      else
        { s with mem := s.mem.take (b + 1) ++ [emptyBlock],
                 thr := setThr s.thr t { th with pc := .wCopy r cnt (b + 1) 0 0 } }
    else goto (.wCopy r cnt b l 0)
  -- CopyObject, one field per step
  | .wCopy r cnt b l j =>
    if r.copyFail = some j then
      { s with lin := s.lin ++ [⟨t, r, .copyFailed⟩],
               thr := setThr s.thr t { th with pc := .wUnlock r .copyFailed } }
    else if j < nFields then
      match cellBL s.mem b l with
      | none => goto .fault
      | some c =>
        { s with mem := setBL s.mem b l (c.writeField j r.obj),
                 thr := setThr s.thr t { th with pc := .wCopy r cnt b l (j + 1) } }
    else goto (.wPublish r cnt)
  -- count_.store(count + 1, release)
  | .wPublish r cnt =>
    { s with count := cnt + 1, tbl := s.tbl ++ [r.obj], lin := s.lin ++ [⟨t, r, .slot cnt⟩],
             thr := setThr s.thr t { th with pc := .wUnlock r (.slot cnt) } }
  -- ReentrantWriteLock destructor, return
  | .wUnlock r res =>
    { s with mutex := if th.depth = 1 then none else s.mutex,
             thr := setThr s.thr t { th with pc := .idle, depth := th.depth - 1, done := (.reg r, res) :: th.done } }
  | .cLoad => finish .count (.count s.count)
  | .rLoad i => goto (.rRead i s.count)
  -- GetAtSlotUnsafe(slot, n)
  | .rRead i n =>
    if 0 ≤ i ∧ i.toNat < n then
      match cellAt s.mem i.toNat with
      | none => finish (.getSlot i) (.atSlot n none)
      | some c => finish (.getSlot i) (.atSlot n (if c.keyStr = "" then none else some c))
    else finish (.getSlot i) (.atSlot n none)
  | .kLoad k =>
    if k = "" then finish (.getKey k) (.byKey s.count none) else goto (.kScan k s.count 0)
  -- GetByKeyUnsafe(key, &slot, n), one slot per step
  | .kScan k n j =>
    if j < n then
      match cellAt s.mem j with
      | none => finish (.getKey k) (.byKey n none)
      | some c =>
        if c.keyStr = "" then finish (.getKey k) (.byKey n none)
        else if keyEq c.keyStr k then finish (.getKey k) (.byKey n (some (j, c)))
        else goto (.kScan k n (j + 1))
    else finish (.getKey k) (.byKey n none)

/-- run a schedule (any list of thread ids) -/
def run (eqv : ObjEq) (s : Sys) : List Nat → Sys
  | [] => s
  | t :: ts => run eqv (step eqv s t) ts

/-- states reachable from an initial state by any interleaving of any thread programs -/
inductive Reachable (eqv : ObjEq) : Sys → Prop
  | init (progs : Nat → List Op) : Reachable eqv (init progs)
  | step {s : Sys} (t : Nat) : Reachable eqv s → Reachable eqv (step eqv s t)

/-! ### Sequential specification (what one call does to the abstract table) -/
namespace Spec

/-- first slot (counting from `j`) whose key matches case-insensitively -/
def findKey (k : String) : List Obj → Nat → Option (Nat × Obj)
  | [], _ => none
  | o :: os, j => if keyEq k o.key then some (j, o) else findKey k os (j + 1)

/-- `AppendIfUnique` on the abstract table; `inj` = an injected allocation / copy failure -/
def register (eqv : ObjEq) (T : List Obj) (o : Obj) (inj : Option Res) : List Obj × Res :=
  match findKey o.key T 0 with
  | some (i, e) => if eqv o e then (T, .slot i) else (T, .conflict i)
  | none =>
    match inj with
    | some r => (T, r)
    | none => (T ++ [o], .slot T.length)

/-- `GetByKeyUnsafe` scan: stops at an empty key -/
def scanKey (k : String) : List Obj → Nat → Option (Nat × Obj)
  | [], _ => none
  | o :: os, j => if o.key = "" then none else if keyEq o.key k then some (j, o) else scanKey k os (j + 1)

def lookup (T : List Obj) (k : String) : Option (Nat × Obj) := if k = "" then none else scanKey k T 0

/-- `GetAtSlotUnsafe` -/
def atSlot (T : List Obj) (i : Int) : Option Obj :=
  if 0 ≤ i then
    match T[i.toNat]? with
    | some o => if o.key = "" then none else some o
    | none => none
  else none

/-- the injected failure (if any) that a recorded result stands for -/
def injOf : Res → Option Res
  | .allocFailed => some .allocFailed
  | .copyFailed => some .copyFailed
  | _ => none

/-- replay a linearisation: every recorded result must be the sequential result -/
def replay (eqv : ObjEq) : List LinEv → List Obj → Option (List Obj)
  | [], T => some T
  | e :: es, T =>
    if (register eqv T e.op.obj (injOf e.res)).2 = e.res then
      replay eqv es (register eqv T e.op.obj (injOf e.res)).1
    else none

end Spec

end MjProof.GlobalTable
