import MjProof.Num
/-
Hand models of the dense / band linear-algebra routines of `src/engine/engine_util_blas.c` and
`src/engine/engine_util_solve.c`, generic over `MjNum α` (run on `Float` for the correspondence,
reasoned about on `ℝ`).  Core Lean only.

The models mirror the loops of the C code: same traversal order and the same association of every sum
(in particular the 4-accumulator unrolling of `mju_dot`), so that evaluation on `Float` is comparable
bitwise with the scalar build.  Vectors are `Vector α n`; row-major matrices are flat `Vector α (nr*nc)`
exactly like the C arrays; every read and write carries its bounds proof (no defaulting accessors).

Modelled here: `mju_dot`, `mju_mulMatVec`, `mju_mulMatTVec`, `mju_cholFactor`, `mju_cholSolve`,
`mju_cholUpdate`, `mju_band2Dense`, `mju_dense2Band`, `mju_bandDiag`, `mju_factorLU`, `mju_solveLU`,
`mju_sqrMatTD`.
-/
namespace MjProof.LinAlg
open MjNum

variable {α : Type} [MjNum α]

/-! ### loop combinators (the `for` loops of the C code, with the index bounds available to the body) -/

/-- `for (i = lo; i < hi; i++) s = body i s` -/
@[inline] def forRange {σ : Type} (lo hi : Nat) (body : (i : Nat) → lo ≤ i → i < hi → σ → σ) (s : σ) : σ :=
  Nat.fold (hi - lo) (fun t ht s => body (lo + t) (Nat.le_add_right lo t) (by omega) s) s

/-- `for (i = hi-1; i >= lo; i--) s = body i s` -/
@[inline] def forRangeRev {σ : Type} (lo hi : Nat) (body : (i : Nat) → lo ≤ i → i < hi → σ → σ) (s : σ) : σ :=
  Nat.fold (hi - lo) (fun t ht s => body (hi - 1 - t) (by omega) (by omega) s) s

/-- flat row-major index bound -/
theorem idx_lt {i j nr nc : Nat} (hi : i < nr) (hj : j < nc) : i * nc + j < nr * nc := by
  have h1 : i * nc + nc ≤ nr * nc := by
    have := Nat.mul_le_mul_right nc (Nat.succ_le_of_lt hi)
    rwa [Nat.succ_mul] at this
  omega

/-- a whole row fits -/
theorem row_le {i nr nc : Nat} (hi : i < nr) : i * nc + nc ≤ nr * nc := by
  have := Nat.mul_le_mul_right nc (Nat.succ_le_of_lt hi)
  rwa [Nat.succ_mul] at this

/-- entry `(i, j)` of a flat row-major `nr × nc` matrix -/
@[inline] def at2 {nr nc : Nat} (m : Vector α (nr * nc)) (i j : Nat) (hi : i < nr) (hj : j < nc) : α :=
  m[i * nc + j]'(idx_lt hi hj)

/-- `m[i*nc + j] = x` -/
@[inline] def set2 {nr nc : Nat} (m : Vector α (nr * nc)) (i j : Nat) (hi : i < nr) (hj : j < nc) (x : α) :
    Vector α (nr * nc) :=
  m.set (i * nc + j) x (idx_lt hi hj)

/-! ### `mju_dot`: four accumulators, combined as `(r0 + r2) + (r1 + r3)`, then the 1–3 remaining products
added as one parenthesised group (engine_util_blas.c; the AVX kernel performs the same additions). -/

/-- summation scheme of `mju_dot` over the list of products `vec1[i]*vec2[i]` -/
def dotGo : List α → α → α → α → α → α
  | a :: b :: c :: d :: rest, r0, r1, r2, r3 => dotGo rest (r0 + a) (r1 + b) (r2 + c) (r3 + d)
  | [a, b, c], r0, r1, r2, r3 => ((r0 + r2) + (r1 + r3)) + (a + b + c)
  | [a, b], r0, r1, r2, r3 => ((r0 + r2) + (r1 + r3)) + (a + b)
  | [a], r0, r1, r2, r3 => ((r0 + r2) + (r1 + r3)) + a
  | [], r0, r1, r2, r3 => (r0 + r2) + (r1 + r3)

def dotSum (ps : List α) : α := dotGo ps (lit 0) (lit 0) (lit 0) (lit 0)

/-- `mju_dot` of two length-`n` sequences given by bounded index functions -/
@[inline] def dotFn (n : Nat) (f : Fin n → α) : α := dotSum (List.ofFn f)

/-- `mju_dot(vec1, vec2, n)` -/
def dot {n : Nat} (x y : Vector α n) : α := dotFn n (fun k => x[k] * y[k])

/-- `mju_mulMatVec(res, mat, vec, nr, nc)` -/
def mulMatVec {nr nc : Nat} (mat : Vector α (nr * nc)) (vec : Vector α nc) : Vector α nr :=
  Vector.ofFn (fun r : Fin nr => dotFn nc (fun k => at2 mat r k r.2 k.2 * vec[k]))

/-- `mju_addToScl(res, vec, scl, n)` on a prefix of length `len` of `res` (at offset `roff`) and a slice of
`src` at offset `soff` (element-wise, so the AVX kernel is bitwise identical) -/
@[inline] def addToSclSlice {nd ns : Nat} (res : Vector α nd) (roff : Nat) (src : Vector α ns) (soff len : Nat)
    (scl : α) (hd : roff + len ≤ nd) (hs : soff + len ≤ ns) : Vector α nd :=
  Nat.fold len (fun t ht res =>
    res.set (roff + t) (res[roff + t]'(by omega) + src[soff + t]'(by omega) * scl) (by omega)) res

/-- `mju_mulMatTVec(res, mat, vec, nr, nc)`: rows with a zero multiplier are skipped -/
def mulMatTVec {nr nc : Nat} (mat : Vector α (nr * nc)) (vec : Vector α nr) : Vector α nc :=
  Nat.fold nr (fun r hr res =>
    let tmp := vec[r]
    if beq tmp (lit 0) then res
    else addToSclSlice res 0 mat (r * nc) nc tmp (by omega) (row_le hr))
    (Vector.replicate nc (lit 0))

/-! ### dense Cholesky (engine_util_solve.c) -/

/-- off-diagonal entries of column `j` (`for (i=j+1; i<n; i++) mat[i*n+j] = (mat[i*n+j] - dot(row i, row j, j)) * tmp`) -/
def cholColumn (n j : Nat) (hj : j < n) (m : Vector α (n * n)) (tmp : α) : Vector α (n * n) :=
  forRange (j + 1) n (fun i _ hi m =>
    set2 m i j hi hj
      ((at2 m i j hi hj - dotFn j (fun k => at2 m i k hi (by omega) * at2 m j k hj (by omega))) * tmp)) m

/-- one iteration (column `j`) of the loop of `mju_cholFactor`; the state is the matrix and the rank -/
def cholStep (n : Nat) (mindiag : α) (j : Nat) (hj : j < n) (st : Vector α (n * n) × Nat) : Vector α (n * n) × Nat :=
  let m := st.1
  -- compute new diagonal
  let tmp0 := at2 m j j hj hj
  let tmp1 := if j ≠ 0 then
      tmp0 - dotFn j (fun k => at2 m j k hj (by omega) * at2 m j k hj (by omega))
    else tmp0
  -- correct diagonal values below threshold
  let deficient : Bool := decide (tmp1 < mindiag)
  let tmp2 := if deficient then mindiag else tmp1
  let rank := if deficient then st.2 - 1 else st.2
  -- save diagonal
  let m := set2 m j j hj hj (sqrt tmp2)
  if deficient then
    -- clear off-diagonals if deficient
    (forRange (j + 1) n (fun i _ hi m => set2 m i j hi hj (lit 0)) m, rank)
  else
    (cholColumn n j hj m (lit 1 / at2 m j j hj hj), rank)

/-- `mju_cholFactor(mat, n, mindiag)`: in-place factorisation, column by column; returns the matrix (factor in
the lower triangle, the strict upper triangle is left untouched) and the rank. -/
def cholFactor (n : Nat) (mat : Vector α (n * n)) (mindiag : α) : Vector α (n * n) × Nat :=
  Nat.fold n (fun j hj st => cholStep n mindiag j hj st) (mat, n)

/-- forward substitution of `mju_cholSolve`: solve `L*res = vec` -/
def cholFwd (n : Nat) (mat : Vector α (n * n)) (vec : Vector α n) : Vector α n :=
  Nat.fold n (fun i hi (res : Vector α n) =>
    let x := if i ≠ 0 then res[i] - dotFn i (fun k => at2 mat i k hi (by omega) * res[k.1]'(by omega)) else res[i]
    res.set i (x / at2 mat i i hi hi)) vec

/-- backward substitution of `mju_cholSolve`: solve `L'*res = res` -/
def cholBwd (n : Nat) (mat : Vector α (n * n)) (y : Vector α n) : Vector α n :=
  forRangeRev 0 n (fun i _ hi (res : Vector α n) =>
    let x := forRange (i + 1) n (fun j _ hj acc => acc - at2 mat j i hj hi * res[j]) res[i]
    res.set i (x / at2 mat i i hi hi)) y

/-- `mju_cholSolve(res, mat, vec, n)`: forward then backward substitution, in place in `res`. -/
def cholSolve (n : Nat) (mat : Vector α (n * n)) (vec : Vector α n) : Vector α n :=
  cholBwd n mat (cholFwd n mat vec)

/-- column update of `mju_cholUpdate`: `mat[i*n+k] = (mat[i*n+k] ± s*x[i]) * cinv`, `i = k+1 … n-1` -/
def cholUpdCol (n k : Nat) (hk : k < n) (m : Vector α (n * n)) (x : Vector α n) (plus : Bool) (s cinv : α) :
    Vector α (n * n) :=
  forRange (k + 1) n (fun i _ hi m =>
    set2 m i k hi hk
      ((if plus then at2 m i k hi hk + s * x[i] else at2 m i k hi hk - s * x[i]) * cinv)) m

/-- vector update of `mju_cholUpdate`: `x[i] = c*x[i] - s*mat[i*n+k]`, `i = k+1 … n-1` -/
def cholUpdX (n k : Nat) (hk : k < n) (m : Vector α (n * n)) (x : Vector α n) (c s : α) : Vector α n :=
  forRange (k + 1) n (fun i _ hi (x : Vector α n) => x.set i (c * x[i] - s * at2 m i k hi hk)) x

/-- one iteration (index `k`) of the loop of `mju_cholUpdate`; state = matrix, vector, rank.  `mjMINVAL = 1e-15`. -/
def cholUpdStep (n : Nat) (plus : Bool) (k : Nat) (hk : k < n) (st : Vector α (n * n) × Vector α n × Nat) :
    Vector α (n * n) × Vector α n × Nat :=
  let m := st.1
  let x := st.2.1
  let xk := x[k]
  if beq xk (lit 0) then st
  else
    -- prepare constants
    let Lkk := at2 m k k hk hk
    let tmp0 := Lkk * Lkk + (if plus then xk * xk else (-xk) * xk)
    let small : Bool := decide (tmp0 < ofSci 1 true 15)
    let tmp := if small then ofSci 1 true 15 else tmp0
    let rank := if small then st.2.2 - 1 else st.2.2
    let r := sqrt tmp
    let c := r / Lkk
    let cinv := lit 1 / c
    let s := xk / Lkk
    -- update diagonal
    let m := set2 m k k hk hk r
    -- update mat
    let m := cholUpdCol n k hk m x plus s cinv
    -- update x
    let x := cholUpdX n k hk m x c s
    (m, x, rank)

/-- `mju_cholUpdate(mat, x, n, flg_plus)`: rank-one update `L*L' ± x*x'`; returns the matrix, the overwritten
`x` and the rank. -/
def cholUpdate (n : Nat) (mat : Vector α (n * n)) (x : Vector α n) (plus : Bool) :
    Vector α (n * n) × Vector α n × Nat :=
  Nat.fold n (fun k hk st => cholUpdStep n plus k hk st) (mat, x, n)

/-! ### band-dense storage (engine_util_solve.c): `(ntotal-ndense)` band rows of width `nband` (left of the
diagonal, inclusive, right-aligned) followed by `ndense` full rows of length `ntotal`. -/

/-- number of scalars of the band-dense representation -/
def bandSize (ntotal nband ndense : Nat) : Nat := (ntotal - ndense) * nband + ndense * ntotal

/-- `mju_bandDiag(i, ntotal, nband, ndense)` -/
def bandDiag (i ntotal nband ndense : Nat) : Nat :=
  if i < ntotal - ndense then i * nband + nband - 1
  else (ntotal - ndense) * nband + (i - (ntotal - ndense)) * ntotal + i

/-- `mju_copy(dst + doff, src + soff, len)` -/
@[inline] def copyInto {nd ns : Nat} (dst : Vector α nd) (doff : Nat) (src : Vector α ns) (soff len : Nat)
    (hd : doff + len ≤ nd) (hs : soff + len ≤ ns) : Vector α nd :=
  Nat.fold len (fun t ht (d : Vector α nd) => d.set (doff + t) (src[soff + t]'(by omega)) (by omega)) dst

theorem band_row_le {i nsparse nband rest : Nat} (hi : i < nsparse) :
    (i + 1) * nband ≤ nsparse * nband + rest := by
  have : (i + 1) * nband ≤ nsparse * nband := Nat.mul_le_mul_right nband (Nat.succ_le_of_lt hi)
  omega

theorem band_dense_row_le {i ntotal nband ndense : Nat} (hd : ndense ≤ ntotal) (h1 : ntotal - ndense ≤ i)
    (h2 : i < ntotal) :
    (ntotal - ndense) * nband + (i - (ntotal - ndense)) * ntotal + ntotal ≤ bandSize ntotal nband ndense := by
  unfold bandSize
  have h : i - (ntotal - ndense) < ndense := by omega
  have := row_le (nc := ntotal) h
  omega

/-- `mju_dense2Band(res, mat, ntotal, nband, ndense)`; `res` is the caller's buffer (entries that the routine
does not write keep their value).  Preconditions of the C routine: `1 ≤ nband`, `ndense ≤ ntotal`. -/
def dense2Band (ntotal nband ndense : Nat) (hb : 1 ≤ nband) (hd : ndense ≤ ntotal)
    (res : Vector α (bandSize ntotal nband ndense)) (mat : Vector α (ntotal * ntotal)) :
    Vector α (bandSize ntotal nband ndense) :=
  -- sparse part
  let res := Nat.fold (ntotal - ndense) (fun i hi (res : Vector α (bandSize ntotal nband ndense)) =>
    let width := min i (nband - 1)
    copyInto res ((i + 1) * nband - (width + 1)) mat (i * ntotal + i - width) (width + 1)
      (by have := band_row_le (nband := nband) (rest := ndense * ntotal) hi
          have h2 : nband ≤ (i + 1) * nband := Nat.le_mul_of_pos_left _ (Nat.succ_pos i)
          unfold bandSize; omega)
      (by have := idx_lt (nc := ntotal) (j := i) (show i < ntotal by omega) (show i < ntotal by omega)
          omega)) res
  -- dense part
  forRange (ntotal - ndense) ntotal (fun i h1 h2 (res : Vector α (bandSize ntotal nband ndense)) =>
    copyInto res ((ntotal - ndense) * nband + (i - (ntotal - ndense)) * ntotal) mat (i * ntotal) (i + 1)
      (by have := band_dense_row_le (nband := nband) hd h1 h2; omega)
      (by have := idx_lt (nc := ntotal) h2 h2; omega)) res

/-- `for (i) for (j=i+1; j<n; j++) res[i*n+j] = res[j*n+i]` (the "make symmetric" loop of `mju_band2Dense`
and `mju_sqrMatTD`) -/
def mirrorLower {n : Nat} (res : Vector α (n * n)) : Vector α (n * n) :=
  Nat.fold n (fun i hi (res : Vector α (n * n)) =>
    forRange (i + 1) n (fun j _ hj res => set2 res i j hi hj (at2 res j i hj hi)) res) res

/-- `mju_band2Dense(res, mat, ntotal, nband, ndense, 0)`: clear, then copy the band rows and the dense rows -/
def band2DenseLower (ntotal nband ndense : Nat) (hb : 1 ≤ nband) (hd : ndense ≤ ntotal)
    (mat : Vector α (bandSize ntotal nband ndense)) : Vector α (ntotal * ntotal) :=
  -- clear all
  let res : Vector α (ntotal * ntotal) := Vector.replicate (ntotal * ntotal) (lit 0)
  -- sparse part
  let res := Nat.fold (ntotal - ndense) (fun i hi (res : Vector α (ntotal * ntotal)) =>
    let width := min i (nband - 1)
    copyInto res (i * ntotal + i - width) mat ((i + 1) * nband - (width + 1)) (width + 1)
      (by have := idx_lt (nc := ntotal) (j := i) (show i < ntotal by omega) (show i < ntotal by omega)
          omega)
      (by have := band_row_le (nband := nband) (rest := ndense * ntotal) hi
          have h2 : nband ≤ (i + 1) * nband := Nat.le_mul_of_pos_left _ (Nat.succ_pos i)
          unfold bandSize; omega)) res
  -- dense part
  forRange (ntotal - ndense) ntotal (fun i h1 h2 (res : Vector α (ntotal * ntotal)) =>
    copyInto res (i * ntotal) mat ((ntotal - ndense) * nband + (i - (ntotal - ndense)) * ntotal) (i + 1)
      (by have := idx_lt (nc := ntotal) h2 h2; omega)
      (by have := band_dense_row_le (nband := nband) hd h1 h2; omega)) res

/-- `mju_band2Dense(res, mat, ntotal, nband, ndense, flg_sym)` -/
def band2Dense (ntotal nband ndense : Nat) (hb : 1 ≤ nband) (hd : ndense ≤ ntotal)
    (mat : Vector α (bandSize ntotal nband ndense)) (sym : Bool) : Vector α (ntotal * ntotal) :=
  let res := band2DenseLower ntotal nband ndense hb hd mat
  -- make symmetric
  if sym then mirrorLower res else res

/-! ### dense LU with partial pivoting (engine_util_solve.c) -/

/-- `mju_factorLU(A, n, pivot)`: returns `none` for the singular exit (`return 0`), else the factor and the
pivot array. -/
def factorLU (n : Nat) (A : Vector α (n * n)) : Option (Vector α (n * n) × Vector Nat n) :=
  Nat.fold n (fun k hk (st : Option (Vector α (n * n) × Vector Nat n)) =>
    match st with
    | none => none
    | some (A, pivot) =>
      -- find pivot: max absolute value in column k, rows k..n-1
      let (maxval, maxrow) := forRange (k + 1) n (fun i _ hi (mv : α × Nat) =>
        let val := abs (at2 A i k hi hk)
        if mv.1 < val then (val, i) else mv) (abs (at2 A k k hk hk), k)
      -- check singularity
      if maxval < ofSci 1 true 15 then none
      else
        let pivot := pivot.set k maxrow
        -- swap rows k and maxrow
        let A := if hm : maxrow < n ∧ maxrow ≠ k then
            Nat.fold n (fun j hj (A : Vector α (n * n)) =>
              let tmp := at2 A k j hk hj
              let A := set2 A k j hk hj (at2 A maxrow j hm.1 hj)
              set2 A maxrow j hm.1 hj tmp) A
          else A
        -- compute multipliers and update trailing submatrix
        let diaginv := lit 1 / at2 A k k hk hk
        let A := forRange (k + 1) n (fun i _ hi (A : Vector α (n * n)) =>
          let A := set2 A i k hi hk (at2 A i k hi hk * diaginv)
          let Aik := at2 A i k hi hk
          forRange (k + 1) n (fun j _ hj (A : Vector α (n * n)) =>
            set2 A i j hi hj (at2 A i j hi hj - Aik * at2 A k j hk hj)) A) A
        some (A, pivot))
    (some (A, Vector.replicate n 0))

/-- `mju_solveLU(x, LU, b, pivot, n)`; `none` if a pivot entry is out of range (never for an output of
`factorLU`). -/
def solveLU (n : Nat) (LU : Vector α (n * n)) (b : Vector α n) (pivot : Vector Nat n) : Option (Vector α n) :=
  -- apply row permutation and forward substitution: solve L*y = P*b
  let fwd := Nat.fold n (fun i hi (st : Option (Vector α n)) =>
    match st with
    | none => none
    | some x =>
      if hp : pivot[i] < n then
        let x := if pivot[i] ≠ i then
            let tmp := x[i]
            let x := x.set i x[pivot[i]]
            x.set pivot[i] tmp
          else x
        some (x.set i (Nat.fold i (fun j hj acc => acc - at2 LU i j hi (by omega) * x[j]) x[i]))
      else none) (some b)
  -- back substitution: solve U*x = y
  fwd.map (fun y =>
    forRangeRev 0 n (fun i _ hi (x : Vector α n) =>
      let acc := forRange (i + 1) n (fun j _ hj acc => acc - at2 LU i j hi hj * x[j]) x[i]
      x.set i (acc / at2 LU i i hi hi)) y)

/-! ### `mju_sqrMatTD` (engine_util_blas.c): `res = M' * diag * M`, lower triangle accumulated row by row -/

/-- `mju_sqrMatTD(res, mat, diag, nr, nc)` with `diag != NULL` -/
def sqrMatTD {nr nc : Nat} (mat : Vector α (nr * nc)) (diag : Vector α nr) : Vector α (nc * nc) :=
  let res : Vector α (nc * nc) := Vector.replicate (nc * nc) (lit 0)
  let res := Nat.fold nr (fun j hj (res : Vector α (nc * nc)) =>
    if beq diag[j] (lit 0) then res
    else
      Nat.fold nc (fun i hi (res : Vector α (nc * nc)) =>
        let tmp := at2 mat j i hj hi
        if beq tmp (lit 0) then res
        else addToSclSlice res (i * nc) mat (j * nc) (i + 1) (tmp * diag[j])
          (by have := idx_lt (nc := nc) hi hi; omega) (by have := idx_lt (nc := nc) hj hi; omega)) res) res
  -- make symmetric
  mirrorLower res

/-- `mju_sqrMatTD(res, mat, NULL, nr, nc)`: `res = M' * M` (different loop nest in the C code) -/
def sqrMatT {nr nc : Nat} (mat : Vector α (nr * nc)) : Vector α (nc * nc) :=
  let res : Vector α (nc * nc) := Vector.replicate (nc * nc) (lit 0)
  let res := Nat.fold nc (fun i hi (res : Vector α (nc * nc)) =>
    Nat.fold nr (fun j hj (res : Vector α (nc * nc)) =>
      let tmp := at2 mat j i hj hi
      if beq tmp (lit 0) then res
      else addToSclSlice res (i * nc) mat (j * nc) (i + 1) tmp
        (by have := idx_lt (nc := nc) hi hi; omega) (by have := idx_lt (nc := nc) hj hi; omega)) res) res
  mirrorLower res

end MjProof.LinAlg
