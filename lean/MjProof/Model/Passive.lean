/-
C29 — executable model of the per-joint / per-dof / per-tendon / per-body scalar computations of
`src/engine/engine_passive.c` (`mj_springdamper`, `mj_gravcomp`, the summation of `mj_passive`) and of the spring
terms of `mj_energyPos` (engine_sensor.c), written over the law-free number class `MjNum α`, in the operation order
of the C code (the `Float` instance is compared bitwise with the engine).  Core Lean only.

The polynomial laws are the *generated* kernels (c2lean, regenerated from engine_util_misc.c on every run):
  `Gen.mju_polyForce_spring`   = mju_polyForce(linear, poly, x, mjNPOLY, 0)    k + p0 x + p1 x^2
  `Gen.mju_polyForce_damper`   = mju_polyForce(linear, poly, x, mjNPOLY, 1)    b + p0 |v| + p1 |v|^2
  `Gen.mju_polyPotential_spring` = mju_polyPotential(linear, poly, x, mjNPOLY, 0)
the quaternion difference of ball / free joints is the generated `mju_subQuat` / `mju_normalize4` / `mju_norm3`.

Modelled as coded:
  * the skip test `stiffness == 0 && mju_isZero(spoly, mjNPOLY)` (the entry keeps the value it was cleared to);
  * slide / hinge spring: `x = qpos - qpos_spring; qfrc_spring = -x * polyForce(k, spoly, x)`;
  * free joint: translational `dif = pos - pos_spring; r = |dif|; frc += dif * (-polyForce(k, spoly, r))`, then the
    ball case on the quaternion; ball: `dif = subQuat(normalize(quat), quat_spring)`, same law on `|dif|`;
  * dof damper: `qfrc_damper = -v * polyForce(damping, poly, v)` with `damping`, `poly` including the actuator
    contribution (`mj_actuatorDamping`, given as inputs);
  * tendon: deadband displacement `x`, `frc_spring = -x * polyForce(k, spoly, x)`, `frc_damper = -v * polyForce(b,
    dpoly, v)`, accumulated into the dofs through the tendon Jacobian row (`qfrc += J * frc`), only when
    `frc_spring || frc_damper`;
  * gravity compensation force of a body: `gravity * (-(mass * gravcomp))`, applied at the body COM (the mapping
    through the Jacobian is `mj_applyFT`: modelled as the dot products with the Jacobian columns);
  * `qfrc_passive = qfrc_spring + qfrc_damper (+ qfrc_gravcomp on dofs whose joint has no actgravcomp)`;
  * the GATES that decide whether a term is computed at all (section "gating" below): the model constants
    `ngravcomp` / `flg_gravcomp` as `setFixed` (engine_setconst.c, reached from `mj_compile` and `mj_setConst`) derives
    them from `body_gravcomp`, the entry test and the body loop of `mj_gravcomp` with its return value `has_gravcomp`
    (which decides whether `mj_passive` adds `qfrc_gravcomp`), the same entry test in front of the actuator-level
    gravity compensation of `mj_fwdActuation`, the early return of `mj_passive` when both mjDSBL_SPRING and
    mjDSBL_DAMPER are set, and the `enbl_spring` / `enbl_damper` switches of `mj_springdamper`.
Not modelled: flex elasticity, fluid forces, passive contacts, adhesion, plugins / callbacks, sleeping.
-/
import MjProof.Num
import MjProof.Gen.Kernels

namespace MjProof.Passive
open MjProof MjProof.Gen

variable {α : Type} [MjNum α]

/-- `stiffness == 0 && mju_isZero(poly, mjNPOLY)` (C `==` / `!=` on doubles) -/
def allZero (k p0 p1 : α) : Bool := MjNum.beq k (MjNum.ofInt 0) && MjNum.beq p0 (MjNum.ofInt 0) && MjNum.beq p1 (MjNum.ofInt 0)

/-! ### joint springs -/

/-- slide / hinge: `qfrc_spring[dadr]` (cleared to 0 by mj_passive when the joint has no spring) -/
def jointSpring (k p0 p1 q qspring : α) : α :=
  if allZero k p0 p1 then MjNum.ofInt 0
  else
    let x := q - qspring
    (-x) * mju_polyForce_spring k p0 p1 x

/-- the spring potential `mj_energyPos` adds for a slide / hinge joint -/
def jointSpringEnergy (k p0 p1 q qspring : α) : α :=
  if allZero k p0 p1 then MjNum.ofInt 0
  else mju_polyPotential_spring k p0 p1 (q - qspring)

/-- `res += vec * scl` on a zeroed / running 3-vector (mji_addToScl3) -/
def addToScl3 (res : α × α × α) (v : α × α × α) (s : α) : α × α × α :=
  (res.1 + v.1 * s, res.2.1 + v.2.1 * s, res.2.2 + v.2.2 * s)

/-- translational part of a free joint: contribution added to `qfrc_spring[dadr .. dadr+3)` -/
def freeLinSpring (k p0 p1 : α) (p ps : α × α × α) (acc : α × α × α) : α × α × α :=
  let dif := (p.1 - ps.1, p.2.1 - ps.2.1, p.2.2 - ps.2.2)
  let r := mju_norm3 dif.1 dif.2.1 dif.2.2
  let kk := mju_polyForce_spring k p0 p1 r
  addToScl3 acc dif (-kk)

/-- ball joint (and the rotational part of a free joint) -/
def ballSpring (k p0 p1 : α) (q qs : α × α × α × α) (acc : α × α × α) : α × α × α :=
  let qn := (mju_normalize4 q.1 q.2.1 q.2.2.1 q.2.2.2).2
  let dif := mju_subQuat qn.1 qn.2.1 qn.2.2.1 qn.2.2.2 qs.1 qs.2.1 qs.2.2.1 qs.2.2.2
  let r := mju_norm3 dif.1 dif.2.1 dif.2.2
  let kk := mju_polyForce_spring k p0 p1 r
  addToScl3 acc dif (-kk)

/-! ### dampers -/

/-- `qfrc_damper[i]` of a dof; `b`, `p0`, `p1` already include the actuator contribution -/
def dofDamper (b p0 p1 v : α) : α :=
  if allZero b p0 p1 then MjNum.ofInt 0
  else (-v) * mju_polyForce_damper b p0 p1 v

/-- `mj_actuatorDamping` (engine_core_util.c): what the actuators attached to a joint / tendon add to its damping
    coefficients.  `mode` 0: `actuatorid == -1`, nothing; 1: exactly one actuator (`actuatorid >= 0`):
    `damping = ad*gear²`, `poly[k] += ap_k*gear²`; 2: several (`actuatorid < -1`): contributions accumulated in
    actuator order starting from 0.  Returns the effective `(b, p0, p1)` = `(b + damping, poly0, poly1)`;
    `none` for an inconsistent call (mode 1 with a list that is not a singleton, unknown mode). -/
def effDamping (b p0 p1 : α) (mode : Nat) (acts : List (α × α × α × α)) : Option (α × α × α) :=
  match mode, acts with
  | 0, [] => some (b + MjNum.ofInt 0, p0, p1)
  | 1, [(ad, a0, a1, gear)] =>
    let g2 := gear * gear
    some (b + ad * g2, p0 + a0 * g2, p1 + a1 * g2)
  | 2, acts =>
    let r := acts.foldl (fun (acc : α × α × α) (a : α × α × α × α) =>
      let g2 := a.2.2.2 * a.2.2.2
      (acc.1 + a.1 * g2, acc.2.1 + a.2.1 * g2, acc.2.2 + a.2.2.1 * g2)) (MjNum.ofInt 0, p0, p1)
    some (b + r.1, r.2.1, r.2.2)
  | _, _ => none

/-! ### tendons -/

/-- deadband displacement: `(length > upper) ? length - upper : (length < lower) ? length - lower : 0` -/
def tendonX (length lower upper : α) : α :=
  if upper < length then length - upper else if length < lower then length - lower else MjNum.ofInt 0

/-- spring force along the tendon (spring enabled) -/
def tendonSpring (k p0 p1 length lower upper : α) : α :=
  let x := tendonX length lower upper
  (-x) * mju_polyForce_spring k p0 p1 x

/-- damper force along the tendon (damper enabled) -/
def tendonDamper (b p0 p1 v : α) : α := (-v) * mju_polyForce_damper b p0 p1 v

def tendonEnergy (k p0 p1 length lower upper : α) : α :=
  mju_polyPotential_spring k p0 p1 (tendonX length lower upper)

/-- the (spring, damper) pair a tendon contributes, `none` when the engine skips the tendon
    (`stiffness == 0 && poly == 0 && damping == 0 && dpoly == 0`) or both forces are exactly zero -/
def tendonForces (k p0 p1 b d0 d1 length lower upper v : α) : Option (α × α) :=
  if allZero k p0 p1 && allZero b d0 d1 then none
  else
    let fs := tendonSpring k p0 p1 length lower upper
    let fd := tendonDamper b d0 d1 v
    if MjNum.beq fs (MjNum.ofInt 0) && MjNum.beq fd (MjNum.ofInt 0) then none else some (fs, fd)

/-- `qfrc[k] += J * frc` for the tendons touching dof `k`, in tendon order -/
def accumulate (base : α) (terms : List (α × α)) : α := terms.foldl (fun acc t => acc + t.1 * t.2) base

/-! ### gravity compensation -/

/-- the force `mj_gravcomp` applies at the COM of a body: `gravity * (-(mass * gravcomp))` -/
def gravcompForce (g : α × α × α) (mass gc : α) : α × α × α :=
  let s := -(mass * gc)
  (g.1 * s, g.2.1 * s, g.2.2 * s)

/-- a 3-force mapped to one dof through the translational Jacobian column of the application point -/
def dot3 (a b : α × α × α) : α := a.1 * b.1 + a.2.1 * b.2.1 + a.2.2 * b.2.2

/-! ### summation of mj_passive -/

/-- `qfrc_passive[i]`: `spring + damper`, then `+= gravcomp` unless the joint routes it through the actuators -/
def passiveSum (spring damper : α) (gravcomp : Option α) : α :=
  match gravcomp with
  | none => spring + damper
  | some g => (spring + damper) + g

/-! ### gating: which terms are computed at all

`mj_passive` clears the four vectors and returns when both mjDSBL_SPRING and mjDSBL_DAMPER are set; otherwise
`mj_springdamper` runs with `enbl_spring = !DISABLED(SPRING)`, `enbl_damper = !DISABLED(DAMPER)`, then `mj_gravcomp`,
whose entry test reads the model constant `flg_gravcomp` that `setFixed` derived from `body_gravcomp`. -/

/-- `setFixed` (engine_setconst.c): `ngravcomp += (body_gravcomp[i] > 0)` over ALL bodies (the world included) -/
def ngravcomp (gc : List α) : Nat := (gc.filter (fun c => decide (MjNum.ofInt 0 < c))).length

/-- `m->flg_gravcomp = (ngravcomp > 0)` -/
def flgGravcomp (gc : List α) : Bool := decide (0 < ngravcomp gc)

/-- entry test of `mj_gravcomp` (and of the actuator-level gravity compensation in `mj_fwdActuation`):
    `flg_gravcomp && !DISABLED(GRAVITY) && norm3(gravity) != 0` -/
def gravcompEntry (flg dsblGravity : Bool) (g : α × α × α) : Bool :=
  flg && !dsblGravity && !(MjNum.beq (mju_norm3 g.1 g.2.1 g.2.2) (MjNum.ofInt 0))

/-- one iteration of the body loop of `mj_gravcomp`: `if (body_gravcomp[i]) { force = gravity * -(mass*gravcomp); apply }` -/
def gravcompBody (g : α × α × α) (mass gc : α) : Option (α × α × α) :=
  if MjNum.beq gc (MjNum.ofInt 0) then none else some (gravcompForce g mass gc)

/-- `mj_gravcomp`: `bodies` lists (mass, gravcomp) of ALL bodies, the world first (the loop starts at body 1).
    Returns (`has_gravcomp`, the force applied at the COM of each body 1.., `none` = nothing applied). -/
def gravcompStage (flg dsblGravity : Bool) (g : α × α × α) (bodies : List (α × α)) : Bool × List (Option (α × α × α)) :=
  if gravcompEntry flg dsblGravity g then
    let fs := (bodies.drop 1).map (fun b => gravcompBody g b.1 b.2)
    (fs.any Option.isSome, fs)
  else (false, (bodies.drop 1).map (fun _ => none))

/-- the force a body receives, `none` read as "no force" -/
def appliedForce (f : Option (α × α × α)) : α × α × α :=
  match f with
  | some v => v
  | none => (MjNum.ofInt 0, MjNum.ofInt 0, MjNum.ofInt 0)

/-- `mj_passive` computes anything at all (not both of mjDSBL_SPRING, mjDSBL_DAMPER set) -/
def passiveEntry (dsblSpring dsblDamper : Bool) : Bool := !(dsblSpring && dsblDamper)

/-- does `mj_passive` add `qfrc_gravcomp` into `qfrc_passive` (on dofs without actgravcomp): derived from the model
    constants only — `flg_gravcomp` as `setFixed` computes it from the `body_gravcomp` column of `bodies` -/
def passiveHasGravcomp (dsblSpring dsblDamper dsblGravity : Bool) (g : α × α × α) (bodies : List (α × α)) : Bool :=
  passiveEntry dsblSpring dsblDamper &&
    (gravcompStage (flgGravcomp (bodies.map (fun b => b.2))) dsblGravity g bodies).1

/-- the joint-spring loop of `mj_springdamper` runs (`enbl_spring`, inside a running `mj_passive`) -/
def springOn (dsblSpring dsblDamper : Bool) : Bool := passiveEntry dsblSpring dsblDamper && !dsblSpring

/-- the dof-damper loop of `mj_springdamper` runs -/
def damperOn (dsblSpring dsblDamper : Bool) : Bool := passiveEntry dsblSpring dsblDamper && !dsblDamper

/-- slide / hinge spring under the switches (the entry keeps its cleared value when the loop does not run) -/
def jointSpringGated (dsblSpring dsblDamper : Bool) (k p0 p1 q qspring : α) : α :=
  if springOn dsblSpring dsblDamper then jointSpring k p0 p1 q qspring else MjNum.ofInt 0

/-- free-joint translational spring under the switches, with the skip test of the joint loop -/
def freeLinSpringGated (dsblSpring dsblDamper : Bool) (k p0 p1 : α) (p ps acc : α × α × α) : α × α × α :=
  if springOn dsblSpring dsblDamper && !(allZero k p0 p1) then freeLinSpring k p0 p1 p ps acc else acc

/-- ball joint / rotational part of a free joint under the switches, with the skip test of the joint loop -/
def ballSpringGated (dsblSpring dsblDamper : Bool) (k p0 p1 : α) (q qs : α × α × α × α) (acc : α × α × α) : α × α × α :=
  if springOn dsblSpring dsblDamper && !(allZero k p0 p1) then ballSpring k p0 p1 q qs acc else acc

/-- dof damper under the switches -/
def dofDamperGated (dsblSpring dsblDamper : Bool) (b p0 p1 v : α) : α :=
  if damperOn dsblSpring dsblDamper then dofDamper b p0 p1 v else MjNum.ofInt 0

/-- tendon spring-damper under the switches, as coded: `stiffness = 0, spoly = NULL` without `enbl_spring`,
    `damping = 0, dpoly = {0}` without `enbl_damper`; skipped when
    `stiffness == 0 && (!enbl_spring || isZero(spoly)) && damping == 0 && isZero(dpoly)`;
    `frc_spring = enbl_spring ? ... : 0`, `frc_damper = enbl_damper ? ... : 0`; applied only `if (frc_spring || frc_damper)` -/
def tendonForcesGated (dsblSpring dsblDamper : Bool) (k p0 p1 b d0 d1 length lower upper v : α) : Option (α × α) :=
  if !(passiveEntry dsblSpring dsblDamper) then none
  else
    let z : α := MjNum.ofInt 0
    let stiffness := if dsblSpring then z else k
    let damping := if dsblDamper then z else b
    let dp0 := if dsblDamper then z else d0
    let dp1 := if dsblDamper then z else d1
    let springZero := MjNum.beq stiffness z && (dsblSpring || (MjNum.beq p0 z && MjNum.beq p1 z))
    if springZero && allZero damping dp0 dp1 then none
    else
      let fs := if dsblSpring then z else tendonSpring stiffness p0 p1 length lower upper
      let fd := if dsblDamper then z else tendonDamper damping dp0 dp1 v
      if MjNum.beq fs z && MjNum.beq fd z then none else some (fs, fd)

/-- `qfrc_passive[i]` under the top-level switch (the vector stays cleared when mj_passive returns early) -/
def passiveSumGated (dsblSpring dsblDamper : Bool) (spring damper : α) (gravcomp : Option α) : α :=
  if passiveEntry dsblSpring dsblDamper then passiveSum spring damper gravcomp else MjNum.ofInt 0

/-- power delivered by a generalized force: `sum_i qvel_i * f_i` -/
def power : List α → List α → α
  | v :: vs, f :: fs => v * f + power vs fs
  | _, _ => MjNum.ofInt 0

end MjProof.Passive
