import MjProof.Num
import MjProof.Gen.Kernels
import MjProof.Gen.RK4
import MjProof.Gen.C05DTerms
/-
C05 — executable model of the state-advancement code of `src/engine/engine_forward.c` / `engine_support.c`,
written once over the law-free number class `MjNum α` (runs on `Float` in `Drivers/C05.lean`, reasoned about on
`ℝ` in `Props/C05.lean`).  Core Lean only.

Modelled, in the operation order of the C code (so that the `Float` instance is bit-comparable):
  * `mj_integratePosInd` (index == NULL): per joint type — free: `pos += dt*v_lin`, then the ball case on the
    quaternion; ball: `mju_quatIntegrate(quat, v_ang, dt)`; slide/hinge: `qpos += dt*qvel`.  The quaternion
    update is the *generated* kernel `MjProof.Gen.mju_quatIntegrate` (c2lean, regenerated from the tree).
  * `mj_nextActivation`: every dyntype branch (filterexact; DC motor: current / bristle / integral / other slot;
    Euler otherwise) and the actrange clamp `dyntype != mjDYN_DCMOTOR && actlimited`; uses the generated
    `mju_clip`, `mju_max`, `mj_lugreStribeck`.
  * the activation part of `mj_advance`: pass 1 `mj_nextActivation` on every activation (act_dot := 0 for a
    disabled actuator), pass 2 the re-anchoring of integrator setpoints (`wrapPeriod`, `wrapSetpoint`, SO3).
  * the rest of `mj_advance`: `qvel += h*qacc`; `qpos` integrated with the given velocity or, if none, with the
    NEW `qvel`; `time += h`.
  * `mj_RungeKutta` for N = 4 with the generated tableau `MjProof.Gen.RK4.A/B`: stage states, stage times, the
    final combination and the final `mj_advance`.
  * WHICH force terms enter the matrix `D` of the `(M − h·D)` solve (section "terms of D"): an interpreter of the
    *generated* top-level statement lists of `mjd_smooth_vel`, `mjd_actuator_vel`, `mjd_passive_vel`, `mj_passive`,
    `mj_fluid` (`Gen/C05DTerms.lean`, translate/c05_dterms.py: early returns on the spring / damper / actuation
    disable flags between the term blocks) and of the `flg_bias` constants of `mj_implicitSkip`; hand-modelled on top:
    the value-level gating of `mj_springdamper` (`enbl_damper`), of `mj_fwdActuation` (actuation disabled), the
    damping test of `mj_EulerSkip` and the local solve of implicitfast for standalone free bodies.
Not modelled (outside the property or covered elsewhere): history buffers, sleeping (`mj_sleep`, awake-index
variants), plugins, `qacc_warmstart`; the flat arrays are the concatenation of the per-joint / per-actuator blocks
in index order (the harness checks this layout on every model it feeds).
All list functions return `none` on any length mismatch (no defaulting).
-/
namespace MjProof.Integrate
open MjProof MjProof.Gen

variable {α : Type} [MjNum α]

/-! ### joint layout -/

inductive JType | free | ball | slide | hinge
  deriving DecidableEq, Repr

/-- `mjtJoint` value (as generated from the headers) → joint type -/
def JType.ofInt? (i : Int) : Option JType :=
  if i = RK4.mjJNT_FREE then some .free
  else if i = RK4.mjJNT_BALL then some .ball
  else if i = RK4.mjJNT_SLIDE then some .slide
  else if i = RK4.mjJNT_HINGE then some .hinge
  else none

def JType.nq : JType → Nat | .free => 7 | .ball => 4 | _ => 1
def JType.nv : JType → Nat | .free => 6 | .ball => 3 | _ => 1

def take1 : List α → Option (α × List α)
  | a :: r => some (a, r)
  | _ => none
def take3 : List α → Option ((α × α × α) × List α)
  | a :: b :: c :: r => some ((a, b, c), r)
  | _ => none
def take4 : List α → Option ((α × α × α × α) × List α)
  | a :: b :: c :: d :: r => some ((a, b, c, d), r)
  | _ => none

/-! ### `mj_integratePosInd` -/

/-- slide / hinge: `qpos[padr] += dt * qvel[vadr]` -/
def integrateScalar (x v dt : α) : α := x + dt * v

/-- ball (and the rotational part of free): `mju_quatIntegrate(qpos+padr, qvel+vadr, dt)` — generated kernel -/
def integrateQuat (q : α × α × α × α) (w : α × α × α) (dt : α) : α × α × α × α :=
  mju_quatIntegrate q.1 q.2.1 q.2.2.1 q.2.2.2 w.1 w.2.1 w.2.2 dt

/-- translational part of free: `qpos[padr+i] += dt * qvel[vadr+i]`, i < 3 -/
def integrateLin (p v : α × α × α) (dt : α) : α × α × α :=
  (p.1 + dt * v.1, p.2.1 + dt * v.2.1, p.2.2 + dt * v.2.2)

/-- `mj_integratePosInd(m, qpos, qvel, dt, NULL, nbody)`: joints in index order, blocks consumed left to right -/
def integratePos : List JType → List α → List α → α → Option (List α)
  | [], [], [], _ => some []
  | [], _, _, _ => none
  | .free :: ts, qp, qv, dt => do
      let (p, qp1) ← take3 qp
      let (q, qp2) ← take4 qp1
      let (vl, qv1) ← take3 qv
      let (va, qv2) ← take3 qv1
      let rest ← integratePos ts qp2 qv2 dt
      let p' := integrateLin p vl dt
      let q' := integrateQuat q va dt
      pure (p'.1 :: p'.2.1 :: p'.2.2 :: q'.1 :: q'.2.1 :: q'.2.2.1 :: q'.2.2.2 :: rest)
  | .ball :: ts, qp, qv, dt => do
      let (q, qp1) ← take4 qp
      let (va, qv1) ← take3 qv
      let rest ← integratePos ts qp1 qv1 dt
      let q' := integrateQuat q va dt
      pure (q'.1 :: q'.2.1 :: q'.2.2.1 :: q'.2.2.2 :: rest)
  | .slide :: ts, qp, qv, dt => do
      let (x, qp1) ← take1 qp
      let (v, qv1) ← take1 qv
      let rest ← integratePos ts qp1 qv1 dt
      pure (integrateScalar x v dt :: rest)
  | .hinge :: ts, qp, qv, dt => do
      let (x, qp1) ← take1 qp
      let (v, qv1) ← take1 qv
      let rest ← integratePos ts qp1 qv1 dt
      pure (integrateScalar x v dt :: rest)

/-! ### `mj_nextActivation` -/

/-- what `mj_nextActivation(m, d, i, act_adr, act_dot)` reads for one activation variable -/
structure ActSlot (α : Type) where
  dyntype : Int            -- m->actuator_dyntype[i]
  actlimited : Bool        -- m->actuator_actlimited[i]
  offset : Int             -- act_adr - m->actuator_actadr[i]
  lo : α                   -- actrange[0]
  hi : α                   -- actrange[1]
  dynprm0 : α
  dynprm2 : α
  dynprm5 : α
  dynprm7 : α
  dynprm8 : α
  gainprm5 : α
  biasprm3 : α
  biasprm4 : α
  biasprm5 : α
  velocity : α             -- d->actuator_velocity[m->actuator_outadr[i]]
  actnum : Int             -- m->actuator_actnum[i]  (the actuator's own activation is the LAST slot: offset = actnum − 1)

/-- `mjDCMotorSlots` -/
structure DCSlots where
  slew : Int
  integral : Int
  temperature : Int
  bristle : Int
  current : Int
  num : Int

/-- `mj_dcmotorSlots(dynprm, gainprm)` -/
def dcmotorSlots (p : ActSlot α) : DCSlots :=
  let z : α := MjNum.ofInt 0
  let s : DCSlots := ⟨-1, -1, -1, -1, -1, 0⟩
  let s := if z < p.dynprm7 then { s with slew := s.num, num := s.num + 1 } else s
  let s := if z < p.gainprm5 then { s with integral := s.num, num := s.num + 1 } else s
  let s := if z < p.dynprm2 then { s with temperature := s.num, num := s.num + 1 } else s
  let s := if z < p.dynprm5 then { s with bristle := s.num, num := s.num + 1 } else s
  let s := if z < p.dynprm0 then { s with current := s.num, num := s.num + 1 } else s
  s

/-- exact first-order filter step `act + act_dot * tau * (1 - exp(-h / tau))`, `tau = mju_max(mjMINVAL, t)` -/
def filterExact (t h act actDot : α) : α :=
  let tau := mju_max (RK4.mjMINVAL : α) t
  act + (actDot * tau) * (MjNum.ofInt 1 - MjNum.exp ((-h) / tau))

/-- the DC-motor branch of `mj_nextActivation` (before the — skipped — actrange clamp) -/
def nextActDC (p : ActSlot α) (h act actDot : α) : α :=
  let slots := dcmotorSlots p
  if p.offset = slots.current then
    filterExact p.dynprm0 h act actDot
  else if p.offset = slots.bristle then
    let g := mj_lugreStribeck p.velocity p.biasprm3 p.biasprm4 p.biasprm5
    let a := ((-p.dynprm5) * MjNum.abs p.velocity) / mju_max (RK4.mjMINVAL : α) g
    let exp_ah := MjNum.exp (a * h)
    let int_h := if (RK4.mjMINVAL : α) < MjNum.abs a then (exp_ah - MjNum.ofInt 1) / a else h
    exp_ah * act + int_h * p.velocity
  else if p.offset = slots.integral then
    let act1 := act + actDot * h
    let imax := p.dynprm8
    if (MjNum.ofInt 0 : α) < imax then mju_clip act1 (-imax) imax else act1
  else
    act + actDot * h

/-- the unclamped next activation (dyntype dispatch of `mj_nextActivation`); the exact filter step applies to the
actuator's own activation only (`is_own_act`: last slot of the block) — preceding (plugin-state) slots are Euler -/
def nextActRaw (p : ActSlot α) (h act actDot : α) : α :=
  if p.dyntype = RK4.mjDYN_FILTEREXACT ∧ p.offset = p.actnum - 1 then filterExact p.dynprm0 h act actDot
  else if p.dyntype = RK4.mjDYN_DCMOTOR then nextActDC p h act actDot
  else act + actDot * h

/-- `mj_nextActivation`: dynamics step, then `mju_clip(act, actrange)` unless DC motor or not actlimited -/
def nextActivation (p : ActSlot α) (h act actDot : α) : α :=
  let a := nextActRaw p h act actDot
  if p.dyntype ≠ RK4.mjDYN_DCMOTOR ∧ p.actlimited = true then mju_clip a p.lo p.hi else a

/-! ### re-anchoring of integrator setpoints (second activation loop of `mj_advance`) -/

/-- C `round` (half away from zero), via floor / ceil (exact for every finite double) -/
def roundC (x : α) : α :=
  if (MjNum.ofInt 0 : α) ≤ x then
    let f := MjNum.floor x
    if (MjNum.ofSci 5 true 1 : α) ≤ x - f then f + MjNum.ofInt 1 else f
  else
    let c := MjNum.ceil x
    if (MjNum.ofSci 5 true 1 : α) ≤ c - x then c - MjNum.ofInt 1 else c

/-- `(mjtNum) mju_round(x)`: saturate at INT_MAX / INT_MIN, round, convert the `int` back (so −0 becomes +0) -/
def mjuRound (x : α) : α :=
  if (MjNum.ofInt 2147483647 : α) < x then MjNum.ofInt 2147483647
  else if x < (MjNum.ofInt (-2147483648) : α) then MjNum.ofInt (-2147483648)
  else roundC x + MjNum.ofInt 0

/-- `wrapSetpoint(u, length, period)` -/
def wrapSetpoint (u length period : α) : α :=
  let err := u - length
  u - period * mjuRound (err / period)

/-- per-actuator data read by `mj_advance` / `wrapPeriod` -/
structure Actuator (α : Type) where
  dyntype : Int
  gaintype : Int
  biastype : Int
  trntype : Int
  actnum : Nat
  actlimited : Bool
  disabled : Bool          -- mj_actuatorDisabled(m, i)
  lo : α
  hi : α
  dynprm0 : α
  dynprm2 : α
  dynprm5 : α
  dynprm7 : α
  dynprm8 : α
  gainprm0 : α
  gainprm5 : α
  biasprm1 : α
  biasprm3 : α
  biasprm4 : α
  biasprm5 : α
  refsite : Int            -- m->actuator_trnid[2*i+1]
  trnJointType : Int       -- m->jnt_type[m->actuator_trnid[2*i]] for joint transmissions, −1 otherwise
  gear0 : α
  gear1 : α
  gear2 : α
  gear3 : α
  gear4 : α
  gear5 : α
  velocity : α             -- d->actuator_velocity[outadr[i]]
  length : α               -- d->actuator_length[outadr[i]]

def Actuator.slot (a : Actuator α) (offset : Nat) : ActSlot α :=
  { dyntype := a.dyntype, actlimited := a.actlimited, offset := (offset : Int), lo := a.lo, hi := a.hi,
    dynprm0 := a.dynprm0, dynprm2 := a.dynprm2, dynprm5 := a.dynprm5, dynprm7 := a.dynprm7, dynprm8 := a.dynprm8,
    gainprm5 := a.gainprm5, biasprm3 := a.biasprm3, biasprm4 := a.biasprm4, biasprm5 := a.biasprm5,
    velocity := a.velocity, actnum := (a.actnum : Int) }

/-- `wrapPeriod(m, i)` -/
def wrapPeriod (a : Actuator α) : α :=
  let servo : Bool := a.gaintype == RK4.mjGAIN_FIXED && a.biastype == RK4.mjBIAS_AFFINE &&
               MjNum.beq a.gainprm0 (-a.biasprm1) &&
               (a.dyntype == RK4.mjDYN_NONE || a.dyntype == RK4.mjDYN_INTEGRATOR)
  let pid : Bool := a.gaintype == RK4.mjGAIN_PID
  let z : α := MjNum.ofInt 0
  if (!servo && !pid) = true then z
  else if a.trntype = RK4.mjTRN_SITE ∧ 0 ≤ a.refsite ∧ MjNum.beq a.gear0 z = true ∧ MjNum.beq a.gear1 z = true ∧
          MjNum.beq a.gear2 z = true then
    MjNum.ofInt 2 * (RK4.mjPI : α) * mju_norm3 a.gear3 a.gear4 a.gear5
  else if (a.trntype = RK4.mjTRN_JOINT ∨ a.trntype = RK4.mjTRN_JOINTINPARENT) ∧ a.trnJointType = RK4.mjJNT_BALL then
    MjNum.ofInt 2 * (RK4.mjPI : α) * mju_norm3 a.gear0 a.gear1 a.gear2
  else z

/-- pass 1 over one actuator's activation block: `d->act[j] = mj_nextActivation(m, d, i, j, disabled ? 0 : act_dot[j])` -/
def nextActBlock (a : Actuator α) (h : α) : Nat → List α → List α → Option (List α)
  | _, [], [] => some []
  | k, x :: xs, dx :: dxs => do
      let rest ← nextActBlock a h (k + 1) xs dxs
      let ad := if a.disabled then (MjNum.ofInt 0 : α) else dx
      pure (nextActivation (a.slot k) h x ad :: rest)
  | _, _, _ => none

/-- replace the last element of a non-empty block -/
def mapLast (f : α → α) : List α → Option (List α)
  | [] => none
  | [x] => some [f x]
  | x :: xs => (mapLast f xs).map (x :: ·)

/-- pass 2 over one actuator's (already advanced) activation block -/
def reanchorBlock (a : Actuator α) (blk : List α) : Option (List α) :=
  if a.dyntype ≠ RK4.mjDYN_INTEGRATOR then some blk
  else
    let period := wrapPeriod a
    if (MjNum.ofInt 0 : α) < period then
      -- adr = actadr + actnum - 1
      mapLast (fun u => wrapSetpoint u a.length period) blk
    else if a.gaintype = RK4.mjGAIN_SO3 then
      match blk with
      | x :: y :: z :: rest =>
        let angle := mju_norm3 x y z
        if (RK4.mjPI : α) < angle then
          let twoPi : α := MjNum.ofInt 2 * (RK4.mjPI : α)
          let scale := (angle - twoPi * mjuRound (angle / twoPi)) / angle
          some (x * scale :: y * scale :: z * scale :: rest)
        else some blk
      | _ => none
    else some blk

/-- split `act` / `act_dot` into the per-actuator blocks (sizes `actnum`) and apply `f` blockwise -/
def mapBlocks (f : Actuator α → List α → List α → Option (List α)) :
    List (Actuator α) → List α → List α → Option (List α)
  | [], [], [] => some []
  | [], _, _ => none
  | a :: as, act, dot =>
      if act.length < a.actnum ∨ dot.length < a.actnum then none
      else do
        let blk ← f a (act.take a.actnum) (dot.take a.actnum)
        let rest ← mapBlocks f as (act.drop a.actnum) (dot.drop a.actnum)
        pure (blk ++ rest)

/-- the activation part of `mj_advance`: both loops, in order -/
def advanceAct (acts : List (Actuator α)) (h : α) (act actDot : List α) : Option (List α) := do
  let act1 ← mapBlocks (fun a blk dot => nextActBlock a h 0 blk dot) acts act actDot
  mapBlocks (fun a blk _ => reanchorBlock a blk) acts act1 actDot

/-! ### `mj_advance` -/

structure Params (α : Type) where
  h : α                          -- m->opt.timestep
  jtypes : List JType
  actuators : List (Actuator α)
  actuationDisabled : Bool       -- mjDISABLED(mjDSBL_ACTUATION)

structure State (α : Type) where
  time : α
  qpos : List α
  qvel : List α
  act : List α

/-- `mju_addToScl(res, vec, scl, n)`: `res[i] += vec[i]*scl` -/
def axpy (res vec : List α) (scl : α) : List α := List.zipWith (fun r v => r + v * scl) res vec

/-- `mj_advance(m, d, act_dot, qacc, qvel)` (history / sleep / plugins aside): activations, then
`d->qvel += h*qacc`, then positions with `qvel` if given and with the NEW `d->qvel` otherwise, then `time += h` -/
def advance (P : Params α) (s : State α) (actDot qacc : List α) (qvelOpt : Option (List α)) : Option (State α) := do
  let act' ← if s.act.isEmpty ∨ P.actuationDisabled then pure s.act else advanceAct P.actuators P.h s.act actDot
  if qacc.length ≠ s.qvel.length then none else
  let qvel' := axpy s.qvel qacc P.h
  let vpos := match qvelOpt with
    | some v => v
    | none => qvel'
  let qpos' ← integratePos P.jtypes s.qpos vpos P.h
  pure { time := s.time + P.h, qpos := qpos', qvel := qvel', act := act' }

/-! ### `mj_RungeKutta` (N = 4) -/

/-- `F[j]`: (qacc, act_dot) of one stage -/
structure Deriv (α : Type) where
  qacc : List α
  actDot : List α

/-- `mju_zero(dX)` followed by `mju_addToScl(dX, x_j, c_j)` for the listed terms, in order -/
def comb (n : Nat) (terms : List (List α × α)) : List α :=
  terms.foldl (fun acc t => axpy acc t.1 t.2) (List.replicate n (MjNum.ofInt 0))

def allLen (n : Nat) (ls : List (List α)) : Bool := ls.all (fun l => l.length == n)

/-- stage state `X[i] = X[0] '+' h*dX`, `dX = Σ_{j<i} a_{ij} (X[j].qvel ; F[j])`, and stage time
`T[i-1] = time + C[i-1]*h` with `C[i-1] = Σ_{j<i} a_{ij}` accumulated from 0 as in the code -/
def stage (P : Params α) (x0 : State α) (vs : List (List α)) (fs : List (Deriv α)) (coefs : List α) :
    Option (State α) :=
  let nv := x0.qvel.length
  let na := x0.act.length
  if vs.length ≠ coefs.length ∨ fs.length ≠ coefs.length ∨ ¬ allLen nv vs ∨ ¬ allLen nv (fs.map (·.qacc)) ∨
     ¬ allLen na (fs.map (·.actDot)) then none
  else do
    let dpos := comb nv (vs.zip coefs)
    let dvel := comb nv ((fs.map (·.qacc)).zip coefs)
    let dact := comb na ((fs.map (·.actDot)).zip coefs)
    let qpos ← integratePos P.jtypes x0.qpos dpos P.h
    let c := coefs.foldl (· + ·) (MjNum.ofInt 0)
    pure { time := x0.time + c * P.h, qpos := qpos, qvel := axpy x0.qvel dvel P.h, act := axpy x0.act dact P.h }

structure RK4Result (α : Type) where
  x1 : State α
  x2 : State α
  x3 : State α
  final : State α

/-- `mj_RungeKutta(m, d, 4)` given the stage derivatives `F[0..3]` (the engine obtains `F[i]` by `mj_forwardSkip`
on `X[i]`; here they are inputs): stage states with the generated tableau `RK4.A`, final combination with
`RK4.B`, state reset to `X[0]`, then `mj_advance(m, d, dX+2nv, dX+nv, dX)` -/
def rk4 (P : Params α) (x0 : State α) (f0 f1 f2 f3 : Deriv α) : Option (RK4Result α) :=
  match (RK4.A : List α), (RK4.B : List α) with
  | [a00, _, _, a10, a11, _, a20, a21, a22], [b0, b1, b2, b3] => do
    let nv := x0.qvel.length
    let na := x0.act.length
    let x1 ← stage P x0 [x0.qvel] [f0] [a00]
    let x2 ← stage P x0 [x0.qvel, x1.qvel] [f0, f1] [a10, a11]
    let x3 ← stage P x0 [x0.qvel, x1.qvel, x2.qvel] [f0, f1, f2] [a20, a21, a22]
    if ¬ allLen nv [f3.qacc] ∨ ¬ allLen na [f3.actDot] then none else
    let dpos := comb nv [(x0.qvel, b0), (x1.qvel, b1), (x2.qvel, b2), (x3.qvel, b3)]
    let dvel := comb nv [(f0.qacc, b0), (f1.qacc, b1), (f2.qacc, b2), (f3.qacc, b3)]
    let dact := comb na [(f0.actDot, b0), (f1.actDot, b1), (f2.actDot, b2), (f3.actDot, b3)]
    let fin ← advance P x0 dact dvel (some dpos)
    pure { x1 := x1, x2 := x2, x3 := x3, final := fin }
  | _, _ => none

/-- the same with the derivative oracle as a function (forward dynamics `F` evaluated at each stage state) -/
def rk4Step (P : Params α) (F : State α → Deriv α) (x0 : State α) : Option (RK4Result α) :=
  match (RK4.A : List α), (RK4.B : List α) with
  | [a00, _, _, a10, a11, _, a20, a21, a22], [_, _, _, _] => do
    let f0 := F x0
    let x1 ← stage P x0 [x0.qvel] [f0] [a00]
    let f1 := F x1
    let x2 ← stage P x0 [x0.qvel, x1.qvel] [f0, f1] [a10, a11]
    let f2 := F x2
    let x3 ← stage P x0 [x0.qvel, x1.qvel, x2.qvel] [f0, f1, f2] [a20, a21, a22]
    rk4 P x0 f0 f1 f2 (F x3)
  | _, _ => none

/-! ### terms of D: which force-velocity derivatives enter the `(M − h·D)` solve -/

namespace DTerms
open MjProof.Gen.C05DTerms

/-- the option bits that gate force terms and their derivatives (`true` = the `mjDSBL_` bit is SET) -/
structure DFlags where
  spring : Bool
  damper : Bool
  actuation : Bool
  eulerdamp : Bool
  deriving DecidableEq, Repr

def DFlags.get (f : DFlags) : Flag → Bool
  | .spring => f.spring
  | .damper => f.damper
  | .actuation => f.actuation

/-- `if (c) { return; }` with `c` in disjunctive normal form over `mjDISABLED(..)` tests -/
def condHolds (f : DFlags) (dnf : List (List Flag)) : Bool := dnf.any (fun c => c.all f.get)

/-- the term markers reached by running a generated top-level statement list under flags `f`
(and the argument `flg_bias`): statements after a taken early return are not reached -/
def runShape (f : DFlags) (flgBias : Bool) : List Stmt → List Mark
  | [] => []
  | .retIf c :: r => if condHolds f c then [] else runShape f flgBias r
  | .adds ms :: r => ms ++ runShape f flgBias r
  | .addsIfBias ms :: r => (if flgBias then ms else []) ++ runShape f flgBias r

/-- markers of the derivative blocks that `mjd_smooth_vel(m, d, flgBias)` adds to `qDeriv` under flags `f`
(callees are entered only where the caller's statement list reaches the call) -/
def derivMarks (f : DFlags) (flgBias : Bool) : List Mark :=
  let top := runShape f flgBias mjd_smooth_vel
  (if top.contains .actuatorVelCall then runShape f flgBias mjd_actuator_vel else []) ++
  (if top.contains .passiveVelCall then runShape f flgBias mjd_passive_vel else []) ++
  (if top.contains .rneVelCall then [.rneVelCall] else [])

/-- markers of the passive force computations that `mj_passive` reaches under flags `f` -/
def forceMarks (f : DFlags) : List Mark :=
  let top := runShape f false mj_passive
  top ++ (if top.contains .fluidCall then runShape f false mj_fluid else [])

/-- velocity-dependent smooth force terms (the probe scenes of checks/c05.py carry exactly one of them each) -/
inductive FTerm
  | dofDamper        -- joint damping (linear + polynomial)
  | tendonDamper     -- tendon damping
  | fluidBox         -- fluid forces, inertia-box model
  | fluidEllipsoid   -- fluid forces, ellipsoid model
  | actuator         -- velocity-dependent actuator force (affine bias / gain)
  | biasChain        -- Coriolis / centripetal forces of a kinematic chain
  | biasFree         -- gyroscopic force of a standalone free body
  deriving DecidableEq, Repr

inductive Integ | euler | rk4 | implicit | implicitfast
  deriving DecidableEq, Repr

/-- does the forward pass apply the term under flags `f`?  Passive terms: `mj_passive` must reach the computation
(generated lists); the dampers are additionally gated by value inside `mj_springdamper` (`enbl_damper`);
`mj_fwdActuation` zeroes the actuator forces when actuation is disabled; the bias force is always computed. -/
def applied (f : DFlags) : FTerm → Bool
  | .dofDamper | .tendonDamper => (forceMarks f).contains .springdamperCall && !f.damper
  | .fluidBox => (forceMarks f).contains .fluidBoxForce
  | .fluidEllipsoid => (forceMarks f).contains .fluidEllipsoidForce
  | .actuator => !f.actuation
  | .biasChain | .biasFree => true

/-- is the derivative of the term part of `qDeriv` after `mjd_smooth_vel(m, d, flgBias)`? -/
def inQDeriv (f : DFlags) (flgBias : Bool) : FTerm → Bool
  | .dofDamper => (derivMarks f flgBias).contains .dofDamper
  | .tendonDamper => (derivMarks f flgBias).contains .tendonDamper
  | .fluidBox => (derivMarks f flgBias).contains .fluidBox
  | .fluidEllipsoid => (derivMarks f flgBias).contains .fluidEllipsoid
  | .actuator => (derivMarks f flgBias).contains .actuatorMoment
  | .biasChain | .biasFree => (derivMarks f flgBias).contains .rneVelCall

/-- is the derivative of the term part of the matrix `D` of the integrator's `(M − h·D)` solve?
Euler (`mj_EulerSkip`): joint damping only, unless `mjDSBL_EULERDAMP` or `mjDSBL_DAMPER`; RK4: no solve;
implicit / implicitfast (`mj_implicitSkip`): `qDeriv` of `mjd_smooth_vel` with the generated `flg_bias`; implicitfast
re-instates the bias derivative for standalone free bodies in the local 6x6 solve (`mjd_freeMhat`).
`none`: the translator refused `mj_implicitSkip`. -/
def inD (i : Integ) (f : DFlags) (t : FTerm) : Option Bool :=
  match i with
  | .euler => some (t == .dofDamper && !f.eulerdamp && !f.damper)
  | .rk4 => some false
  | .implicit => flgBiasImplicit.map (fun b => inQDeriv f b t)
  | .implicitfast => flgBiasImplicitfast.map (fun b => inQDeriv f b t || t == .biasFree)

end DTerms

end MjProof.Integrate
