import MjProof.Model.SchemaLex
import MjProof.Model.SchemaParse
import MjProof.Model.SchemaValidate
/-
Model of `doc/generate/mjcf_schema.py` (C41), split into
  `SchemaLex`      `_TOKEN_RE`, `_lex`, and the builtins `int()` / `float()` on NUMBER tokens
  `SchemaParse`    the dataclasses and `_Parser`
  `SchemaValidate` `_validate`, `_check_group_cycle`, `_validate_attr`, `expanded_attrs`, `parse_string`
The entry point is `MjProof.Schema.parseString : (text : List Char) → Except (Line × Cls) Schema`.
-/
