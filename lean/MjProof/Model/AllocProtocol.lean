/-
Executable model of the heap-allocation protocol of the engine's object life-cycle functions
(DESIGN.md §5.C21):

  engine_util_errmem.c   mju_malloc (calls mju_error itself when the allocation fails and size > 0), mju_free
  engine_io.c            mj_makeModel, mj_copyModel, mj_saveModel (temporary buffer), mj_loadModelBuffer,
                         mj_deleteModel, mj_makeRawData, mj_makeData, mj_copyData(Visual), mj_deleteData
  user_resource.cc       mju_writeResource (the local mjVFS it allocates)

Each scenario is the flattened sequence of alloc / test / use / free steps the C code performs, followed
by what the *caller* does with the returned object (delete it).  An oracle `fails : Nat → Bool` decides
which `mju_malloc` call (0-based) fails.  Two error-handler regimes:

  `.longjmp`    the handler leaves through longjmp (Python bindings, the compiler): control never comes
                back, so code after a raising call is not executed and the return value is lost;
  `.returning`  the handler returns (documented as undefined behaviour): execution continues.

and two variants of the allocation call: `.asIs` – `mju_malloc` raises `mju_error` itself, so with a
longjmp handler the explicit `if (!ptr) { cleanup; mjERROR }` blocks of the callers are dead code – and
`.tryMalloc` – the proposed fix: the life-cycle functions allocate with a non-raising variant and keep
their explicit cleanup.

Initialisation and ownership across a non-local exit are modelled too: a block's contents are
*indeterminate* until written (`mju_malloc` promises nothing), the struct fields the delete functions read
(`buffer`, `arena`, `threadpool`, `nplugin`) are tracked per block, and a read (`readFld`, `freeFld`) of a
field that was never written is a fault (`uninitRead`).  `publish c v` is `*dest = v` into a variable `c` of
a caller frame that survives the longjmp; a scenario may carry a handler `onJump` (the catch block of
mjCModel::Compile: `mj_deleteModel(model); mj_deleteData(data);`) which runs on the published variables
after the jump.  `compile` is mj_compile of a plain model (no plugin, no mesh): mj_makeModel, the partial
mjData (mj_makeRawData … mj_deleteData), the complete one (mj_makeData … mj_deleteData), under the
compiler's own longjmp-ing handler, then the caller's mj_deleteModel.

Not modelled: plugins (nplugin = 0), the size-validation early returns (warnings), file I/O, C++ `new`.
Core Lean only.
-/
namespace MjProof.AllocProtocol

inductive Var where
  | m | mbuf | d | dbuf | darena | tmp | vfs
  | loc        -- `*dest` is a local of the calling library function (mj_makeData, mj_copyData, …): dead after a longjmp
  | cm | cd    -- `model` and `data` of mjCModel::Compile: they survive the longjmp and are read by its catch block
  deriving DecidableEq, Repr

/-- the struct fields the delete functions read (mj_deleteData → mju_threadpool, freeDataBuffers;
    mj_deleteModel → freeModelBuffers). -/
inductive Fld where
  | buffer | arena | threadpool | nplugin
  deriving DecidableEq, Repr

inductive Regime where
  | longjmp | returning
  deriving DecidableEq, Repr

inductive Variant where
  | asIs | tryMalloc
  deriving DecidableEq, Repr

/-- how an `if (!ptr) { … }` block ends. -/
inductive Exit where
  | error        -- mjERROR(…)
  | warnReturn   -- mju_warning(…); return;   (the function returns without an object)
  | warnFreeReturn (after : List Var)   -- mju_warning(…); mju_free(after…); return;
  deriving DecidableEq, Repr

inductive Step where
  | alloc (v : Var) (size : Nat) (raising : Bool)    -- v = mju_malloc(size) (raising) / a non-raising allocation
  | ifNull (v : Var) (cleanup : List Var) (e : Exit)   -- if (!v) { mju_free(c) for c in cleanup; e }
  | use (v : Var)                                    -- read or write through v
  | useIfSet (g v : Var)                             -- if (g) { … v … }
  | free (v : Var)                                   -- mju_free(v)
  | ret (v : Var)                                    -- return v
  | setFld (v : Var) (f : Fld) (src : Option Var)    -- v->f = 0 / NULL (`none`)  or  v->f = src
  | zeroAll (v : Var)                                -- memset(v, 0, sizeof *v)
  | readFld (v : Var) (f : Fld)                      -- a branch / loop bound / argument computed from v->f
  | freeFld (v : Var) (f : Fld)                      -- mju_free(v->f)
  | publish (c v : Var)                              -- *dest = v, `c` = the variable `dest` points to
  | clearPub (c : Var)                               -- c = nullptr in the frame that owns `c`
  deriving DecidableEq, Repr

inductive Ev where
  | a (size : Nat)     -- successful mju_malloc
  | x (size : Nat)     -- failed mju_malloc
  | f (id : Nat)       -- mju_free of the block made by the id-th mju_malloc call (1-based)
  | E                  -- error handler invoked
  | W                  -- warning
  deriving DecidableEq, Repr

inductive Fault where
  | nullDeref (v : Var)
  | useAfterFree (v : Var)
  | doubleFree (v : Var)
  | unbound (v : Var)     -- (model hygiene)
  | uninitRead (v : Var) (f : Fld)   -- v->f read before it was ever written: an indeterminate value is used
  deriving DecidableEq, Repr

inductive Out where
  | returned (obj : Option Nat)   -- the function returned; `some id` = a live object handed to the caller
  | jumped                        -- the error handler left through longjmp
  | caught                        -- … and the scenario's handler (catch block) ran to completion: error return
  | fault (f : Fault)
  deriving DecidableEq, Repr

structure H where
  calls : Nat                         -- number of mju_malloc calls so far
  live : List Nat                     -- ids of blocks not yet freed
  freed : List Nat
  env : List (Var × Option Nat)       -- none = NULL
  trace : List Ev                     -- most recent first
  flds : List ((Nat × Fld) × Option Nat) := []   -- written fields of blocks (most recent first); absent = indeterminate
  pub : List (Var × Option Nat) := []            -- variables of the frame that survives a longjmp (absent = nullptr)
  deriving Repr

def H.init : H := ⟨0, [], [], [], [], [], []⟩

def lookup (env : List (Var × Option Nat)) (v : Var) : Option (Option Nat) :=
  match env with
  | [] => none
  | (w, x) :: rest => if w = v then some x else lookup rest v

/-- dereference check. -/
def deref (h : H) (v : Var) : Option Fault :=
  match lookup h.env v with
  | none => some (.unbound v)
  | some none => some (.nullDeref v)
  | some (some id) => if id ∈ h.live then none else some (.useAfterFree v)

def lookupFld (fl : List ((Nat × Fld) × Option Nat)) (id : Nat) (f : Fld) : Option (Option Nat) :=
  match fl with
  | [] => none
  | ((i, g), x) :: rest => if i = id ∧ g = f then some x else lookupFld rest id f

/-- the live block a struct pointer variable refers to (or the fault of dereferencing it). -/
def block (h : H) (v : Var) : Except Fault Nat :=
  match lookup h.env v with
  | none => .error (.unbound v)
  | some none => .error (.nullDeref v)
  | some (some id) => if id ∈ h.live then .ok id else .error (.useAfterFree v)

/-- `mju_free(v)`: NULL is ignored; freeing a block twice is a fault. -/
def freeVar (h : H) (v : Var) : Except Fault H :=
  match lookup h.env v with
  | none => .error (.unbound v)
  | some none => .ok h
  | some (some id) =>
    if id ∈ h.live then .ok { h with live := h.live.filter (· ≠ id), freed := id :: h.freed, trace := .f id :: h.trace }
    else .error (.doubleFree v)

def freeVars (h : H) : List Var → Except Fault H
  | [] => .ok h
  | v :: rest => match freeVar h v with
                 | .ok h' => freeVars h' rest
                 | .error f => .error f

/-- raising an error: with a longjmp handler control leaves. -/
def raise (r : Regime) (h : H) : Option H × H :=
  let h' := { h with trace := .E :: h.trace }
  match r with
  | .longjmp => (none, h')
  | .returning => (some h', h')

/-- interpreter of a function body; `fails k` = the k-th `mju_malloc` call (0-based) fails. -/
def run (r : Regime) (fails : Nat → Bool) : List Step → H → Out × H
  | [], h => (.returned none, h)
  | .alloc v size raising :: rest, h =>
    if size = 0 then
      -- mju_malloc(0) returns NULL without raising
      run r fails rest { h with calls := h.calls + 1, env := (v, none) :: h.env, trace := .x 0 :: h.trace }
    else if fails h.calls then
      let h1 := { h with calls := h.calls + 1, env := (v, none) :: h.env, trace := .x size :: h.trace }
      if raising then
        match raise r h1 with
        | (none, h2) => (.jumped, h2)
        | (some h2, _) => run r fails rest h2
      else run r fails rest h1
    else
      let id := h.calls + 1
      run r fails rest { h with calls := id, live := id :: h.live, env := (v, some id) :: h.env, trace := .a size :: h.trace }
  | .ifNull v cleanup e :: rest, h =>
    match lookup h.env v with
    | none => (.fault (.unbound v), h)
    | some (some _) => run r fails rest h
    | some none =>
      match freeVars h cleanup with
      | .error f => (.fault f, h)
      | .ok h1 =>
        match e with
        | .warnReturn => (.returned none, { h1 with trace := .W :: h1.trace })
        | .warnFreeReturn after =>
          (match freeVars { h1 with trace := .W :: h1.trace } after with
           | .ok h2 => (.returned none, h2)
           | .error f => (.fault f, h1))
        | .error =>
          match raise r h1 with
          | (none, h2) => (.jumped, h2)
          | (some h2, _) => run r fails rest h2
  | .use v :: rest, h =>
    match deref h v with
    | some f => (.fault f, h)
    | none => run r fails rest h
  | .useIfSet g v :: rest, h =>
    match lookup h.env g with
    | none => (.fault (.unbound g), h)
    | some none => run r fails rest h
    | some (some _) =>
      match deref h v with
      | some f => (.fault f, h)
      | none => run r fails rest h
  | .free v :: rest, h =>
    match freeVar h v with
    | .error f => (.fault f, h)
    | .ok h1 => run r fails rest h1
  | .ret v :: _, h =>
    match lookup h.env v with
    | none => (.fault (.unbound v), h)
    | some x => (.returned x, h)
  | .setFld v f src :: rest, h =>
    match block h v with
    | .error e => (.fault e, h)
    | .ok id =>
      match src with
      | none => run r fails rest { h with flds := ((id, f), none) :: h.flds }
      | some w =>
        match lookup h.env w with
        | none => (.fault (.unbound w), h)
        | some x => run r fails rest { h with flds := ((id, f), x) :: h.flds }
  | .zeroAll v :: rest, h =>
    match block h v with
    | .error e => (.fault e, h)
    | .ok id =>
      run r fails rest { h with flds := ((id, .buffer), none) :: ((id, .arena), none) :: ((id, .threadpool), none) ::
                                         ((id, .nplugin), none) :: h.flds }
  | .readFld v f :: rest, h =>
    match block h v with
    | .error e => (.fault e, h)
    | .ok id =>
      match lookupFld h.flds id f with
      | none => (.fault (.uninitRead v f), h)
      | some _ => run r fails rest h
  | .freeFld v f :: rest, h =>
    match block h v with
    | .error e => (.fault e, h)
    | .ok id =>
      match lookupFld h.flds id f with
      | none => (.fault (.uninitRead v f), h)
      | some none => run r fails rest h
      | some (some b) =>
        if b ∈ h.live then
          run r fails rest { h with live := h.live.filter (· ≠ b), freed := b :: h.freed, trace := .f b :: h.trace }
        else (.fault (.doubleFree v), h)
  | .publish c v :: rest, h =>
    match lookup h.env v with
    | none => (.fault (.unbound v), h)
    | some x => run r fails rest { h with pub := (c, x) :: h.pub }
  | .clearPub c :: rest, h => run r fails rest { h with pub := (c, none) :: h.pub }

/-- a scenario: the library function(s), then what the caller does with a returned object. -/
structure Scenario where
  body : List Step
  cleanup : List Step
  /-- the handler the longjmp lands in, if the scenario has one of its own: for each variable of the
      surviving frame, what is done with it when it is not nullptr (`if (x) { … }`). -/
  onJump : Option (List (Var × List Step)) := none
  deriving Repr

/-- the catch block: runs in the surviving frame (its variables are the published ones). -/
def runCatch (r : Regime) (fails : Nat → Bool) : List (Var × List Step) → H → Out × H
  | [], h => (.caught, h)
  | (c, prog) :: rest, h =>
    match lookup h.pub c with
    | some (some _) =>
      (match run r fails prog { h with env := h.pub } with
       | (.returned _, h') => runCatch r fails rest h'
       | other => other)
    | _ => runCatch r fails rest h

/-- run the body; if it handed an object to the caller, the caller deletes it.  After a longjmp the
    caller holds nothing (the return value is lost); a scenario with a handler of its own runs it. -/
def exec (r : Regime) (fails : Nat → Bool) (s : Scenario) : Out × H :=
  match run r fails s.body H.init with
  | (.returned (some _), h) =>
    (match run r fails s.cleanup h with
     | (.returned _, h') => (.returned none, h')
     | other => other)
  | (.jumped, h) =>
    (match s.onJump with
     | none => (.jumped, h)
     | some c => runCatch r fails c h)
  | other => other

/-! ## The scenarios (engine_io.c, nplugin = 0)

`vt = .asIs`: the tree – every allocation is `mju_malloc`, which raises by itself.
`vt = .tryMalloc`: the proposed fix – the life-cycle functions allocate without raising and keep their
explicit `if (!ptr) { cleanup; mjERROR }`; mju_writeResource tests its local mjVFS and reports failure. -/

def Variant.raising : Variant → Bool
  | .asIs => true
  | .tryMalloc => false

/-- mj_makeModel(&dest, …) with `*dest == NULL`: struct, memset, buffer (stored into the struct by the
    same statement that allocates it), `*dest = m` last. -/
def makeModelBody (vt : Variant) (szModel nbuffer : Nat) (dest : Var) : List Step :=
  [.alloc .m szModel vt.raising, .ifNull .m [] .error, .zeroAll .m,
   .alloc .mbuf nbuffer vt.raising, .setFld .m .buffer (some .mbuf), .ifNull .mbuf [.m] .error,
   .use .m, .use .mbuf, .use .m, .publish dest .m]

/-- mj_deleteModel(v) behind its `if (v)`: freeModelBuffers (mju_free(v->buffer)), mju_free(v). -/
def deleteModelOf (v : Var) : List Step := [.freeFld v .buffer, .free v]

def deleteModel : List Step := deleteModelOf .m

/-- mj_makeRawData(&dest, m) with `*dest == NULL`: struct, `d->buffer = d->arena = NULL`, buffer, arena,
    mj_setPtrData, `d->threadpool = 0`, `d->nplugin = 0`, `*dest = d` last. -/
def makeRawDataBody (vt : Variant) (szData nbuffer narena : Nat) (dest : Var) : List Step :=
  [.alloc .d szData vt.raising, .ifNull .d [] .error, .use .d,
   .setFld .d .buffer none, .setFld .d .arena none,
   .alloc .dbuf nbuffer vt.raising, .setFld .d .buffer (some .dbuf), .ifNull .dbuf [.d] .error,
   .use .d, .alloc .darena narena vt.raising, .setFld .d .arena (some .darena), .ifNull .darena [.dbuf, .d] .error,
   .use .d, .setFld .d .threadpool none, .setFld .d .nplugin none, .publish dest .d]

/-- mj_deleteData(v) behind its `if (v)`: mju_threadpool(v, 0) (`if (v->threadpool)`), freeDataBuffers
    (the plugin loop bounded by `v->nplugin`, mju_free(v->buffer), mju_free(v->arena)), mju_free(v). -/
def deleteDataOf (v : Var) : List Step :=
  [.readFld v .threadpool, .readFld v .nplugin, .freeFld v .buffer, .freeFld v .arena, .free v]

def deleteData : List Step := deleteDataOf .d

/-- `d = mj_makeData(m); … mj_deleteData(d)`. -/
def makeData (vt : Variant) (szData nbuffer narena : Nat) : Scenario :=
  { body := makeRawDataBody vt szData nbuffer narena .loc ++
            [.useIfSet .d .d, .useIfSet .d .dbuf, .useIfSet .d .darena, .ret .d],
    cleanup := deleteData }

/-- `d2 = mj_copyData(NULL, m, src); … mj_deleteData(d2)` (mj_copyDataVisual: no test of `dest`
    after mj_makeRawData). -/
def copyData (vt : Variant) (szData nbuffer narena : Nat) : Scenario :=
  { body := makeRawDataBody vt szData nbuffer narena .loc ++ [.use .d, .use .dbuf, .use .darena, .ret .d],
    cleanup := deleteData }

/-- `m2 = mj_copyModel(NULL, src); … mj_deleteModel(m2)`. -/
def copyModel (vt : Variant) (szModel nbuffer : Nat) : Scenario :=
  { body := makeModelBody vt szModel nbuffer .loc ++ [.ifNull .m [] .error, .use .m, .use .mbuf, .ret .m],
    cleanup := deleteModel }

/-- `m2 = mj_loadModelBuffer(buf, n); … mj_deleteModel(m2)` on a well-formed buffer. -/
def loadModel (vt : Variant) (szModel nbuffer : Nat) : Scenario :=
  { body := makeModelBody vt szModel nbuffer .loc ++ [.ifNull .m [] .warnReturn, .use .m, .use .mbuf, .ret .m],
    cleanup := deleteModel }

/-- `mj_saveModel(m, filename, NULL, 0)`: temporary buffer, then mju_writeResource's local mjVFS
    (in the tree the only test of that pointer is mj_defaultVFS's `if (vfs == nullptr) mju_error(…)`,
    after which it is used; tested, with the buffer released, in the fixed variant). -/
def saveModel : Variant → Nat → Nat → Scenario
  | .asIs, szBuf, szVfs =>
    { body := [.alloc .tmp szBuf true, .ifNull .tmp [] .warnReturn, .use .tmp,
               .alloc .vfs szVfs true, .ifNull .vfs [] .error, .use .vfs, .free .vfs, .free .tmp],
      cleanup := [] }
  | .tryMalloc, szBuf, szVfs =>
    { body := [.alloc .tmp szBuf false, .ifNull .tmp [] .warnReturn, .use .tmp,
               .alloc .vfs szVfs false, .ifNull .vfs [] (.warnFreeReturn [.tmp]), .use .vfs, .free .vfs, .free .tmp],
      cleanup := [] }

/-! ## mj_compile of a plain model (user_model.cc: mjCModel::Compile / TryCompile)

`TryCompile(model, data, vfs)` works on *references* to Compile's variables, so `mj_makeModel(&m, …)` and
`mj_makeRawData(&d, m)` publish into the frame whose catch block runs after an engine error (the compiler
installs its own longjmp-ing log handler, whatever the global handler does – the scenario is run with
`.longjmp`; a C++ `throw mjCError` ends in the same catch block and is written as `.error` too):

    mj_makeModel(&m, …); copy objects into m
    mj_makeRawData(&d, m); if (!d) throw; mj_resetData, mj_setConst, …; mj_deleteData(d); d = nullptr;
    d = mj_makeData(m); if (!d) throw; mj_step; mj_deleteData(d); d = nullptr;
    catch: mj_deleteModel(model); mj_deleteData(data);

then the caller deletes the returned model. -/

/-- the data life-cycle inside TryCompile, parameterised by the mj_makeRawData body so that variants of it
    can be compared (`publishFirst` below). -/
def compileWith (mkModel mkRaw1 mkRaw2 : List Step) : Scenario :=
  { body := mkModel ++ [.use .m, .use .mbuf] ++
            mkRaw1 ++ [.ifNull .d [] .error, .use .d, .use .dbuf, .use .darena] ++ deleteDataOf .d ++ [.clearPub .cd] ++
            mkRaw2 ++ [.useIfSet .d .d, .useIfSet .d .dbuf, .useIfSet .d .darena, .publish .cd .d,
                       .ifNull .d [] .error, .use .d, .use .dbuf, .use .darena] ++ deleteDataOf .d ++ [.clearPub .cd] ++
            [.use .m, .ret .m],
    cleanup := deleteModelOf .m,
    onJump := some [(.cm, deleteModelOf .cm), (.cd, deleteDataOf .cd)] }

def compile (vt : Variant) (szModel nbufM szData nbufD narena : Nat) : Scenario :=
  compileWith (makeModelBody vt szModel nbufM .cm) (makeRawDataBody vt szData nbufD narena .cd)
    (makeRawDataBody vt szData nbufD narena .loc)

/-- NOT the tree: mj_makeRawData storing the struct into `*dest` right after `d->buffer = d->arena = NULL`,
    before the buffer / arena allocations and before `d->threadpool`, `d->nplugin` are written (the kind of
    reordering that makes the struct reachable from a recovering caller too early). -/
def makeRawDataPublishFirst (vt : Variant) (szData nbuffer narena : Nat) (dest : Var) : List Step :=
  [.alloc .d szData vt.raising, .ifNull .d [] .error, .use .d,
   .setFld .d .buffer none, .setFld .d .arena none, .publish dest .d,
   .alloc .dbuf nbuffer vt.raising, .setFld .d .buffer (some .dbuf), .ifNull .dbuf [.d] .error,
   .use .d, .alloc .darena narena vt.raising, .setFld .d .arena (some .darena), .ifNull .darena [.dbuf, .d] .error,
   .use .d, .setFld .d .threadpool none, .setFld .d .nplugin none]

/-- NOT the tree: TryCompile without the `d = nullptr` after the first mj_deleteData(d). -/
def compileNoClear (vt : Variant) (szModel nbufM szData nbufD narena : Nat) : Scenario :=
  { compile vt szModel nbufM szData nbufD narena with
    body := makeModelBody vt szModel nbufM .cm ++ [.use .m, .use .mbuf] ++
            makeRawDataBody vt szData nbufD narena .cd ++ [.use .d] ++ deleteDataOf .d ++
            makeRawDataBody vt szData nbufD narena .loc ++ [.publish .cd .d] ++ deleteDataOf .d ++ [.clearPub .cd, .ret .m] }

end MjProof.AllocProtocol
