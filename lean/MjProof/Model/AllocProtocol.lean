/-
Executable model of the heap-allocation protocol of the engine's object life-cycle functions
(DESIGN.md §5.C21):

  engine_util_errmem.c   mju_malloc (calls mju_error itself when the allocation fails and size > 0), mju_free
  engine_io.c            mj_makeModel, mj_copyModel, mj_saveModel (temporary buffer), mj_loadModelBuffer,
                         mj_deleteModel, mj_makeRawData, mj_makeData, mj_copyData(Visual), mj_deleteData
  user_resource.cc       mju_writeResource (the local mjVFS it allocates)

Each scenario is the flattened sequence of alloc / test / use / free steps the C code performs, followed
by what the *caller* does with the returned object (delete it).  An oracle `fails : Nat → Bool` decides
which `mju_malloc` call (0-based) fails.  Two error-handler regimes:

  `.longjmp`    the handler leaves through longjmp (Python bindings, the compiler): control never comes
                back, so code after a raising call is not executed and the return value is lost;
  `.returning`  the handler returns (documented as undefined behaviour): execution continues.

and two variants of the allocation call: `.asIs` – `mju_malloc` raises `mju_error` itself, so with a
longjmp handler the explicit `if (!ptr) { cleanup; mjERROR }` blocks of the callers are dead code – and
`.tryMalloc` – the proposed fix: the life-cycle functions allocate with a non-raising variant and keep
their explicit cleanup.

Not modelled: plugins (nplugin = 0), the size-validation early returns (warnings), file I/O, C++ `new`.
Core Lean only.
-/
namespace MjProof.AllocProtocol

inductive Var where
  | m | mbuf | d | dbuf | darena | tmp | vfs
  deriving DecidableEq, Repr

inductive Regime where
  | longjmp | returning
  deriving DecidableEq, Repr

inductive Variant where
  | asIs | tryMalloc
  deriving DecidableEq, Repr

/-- how an `if (!ptr) { … }` block ends. -/
inductive Exit where
  | error        -- mjERROR(…)
  | warnReturn   -- mju_warning(…); return;   (the function returns without an object)
  | warnFreeReturn (after : List Var)   -- mju_warning(…); mju_free(after…); return;
  deriving DecidableEq, Repr

inductive Step where
  | alloc (v : Var) (size : Nat) (raising : Bool)    -- v = mju_malloc(size) (raising) / a non-raising allocation
  | ifNull (v : Var) (cleanup : List Var) (e : Exit)   -- if (!v) { mju_free(c) for c in cleanup; e }
  | use (v : Var)                                    -- read or write through v
  | useIfSet (g v : Var)                             -- if (g) { … v … }
  | free (v : Var)                                   -- mju_free(v)
  | ret (v : Var)                                    -- return v / *dest = v
  deriving DecidableEq, Repr

inductive Ev where
  | a (size : Nat)     -- successful mju_malloc
  | x (size : Nat)     -- failed mju_malloc
  | f (id : Nat)       -- mju_free of the block made by the id-th mju_malloc call (1-based)
  | E                  -- error handler invoked
  | W                  -- warning
  deriving DecidableEq, Repr

inductive Fault where
  | nullDeref (v : Var)
  | useAfterFree (v : Var)
  | doubleFree (v : Var)
  | unbound (v : Var)     -- (model hygiene)
  deriving DecidableEq, Repr

inductive Out where
  | returned (obj : Option Nat)   -- the function returned; `some id` = a live object handed to the caller
  | jumped                        -- the error handler left through longjmp
  | fault (f : Fault)
  deriving DecidableEq, Repr

structure H where
  calls : Nat                         -- number of mju_malloc calls so far
  live : List Nat                     -- ids of blocks not yet freed
  freed : List Nat
  env : List (Var × Option Nat)       -- none = NULL
  trace : List Ev                     -- most recent first
  deriving Repr

def H.init : H := ⟨0, [], [], [], []⟩

def lookup (env : List (Var × Option Nat)) (v : Var) : Option (Option Nat) :=
  match env with
  | [] => none
  | (w, x) :: rest => if w = v then some x else lookup rest v

/-- dereference check. -/
def deref (h : H) (v : Var) : Option Fault :=
  match lookup h.env v with
  | none => some (.unbound v)
  | some none => some (.nullDeref v)
  | some (some id) => if id ∈ h.live then none else some (.useAfterFree v)

/-- `mju_free(v)`: NULL is ignored; freeing a block twice is a fault. -/
def freeVar (h : H) (v : Var) : Except Fault H :=
  match lookup h.env v with
  | none => .error (.unbound v)
  | some none => .ok h
  | some (some id) =>
    if id ∈ h.live then .ok { h with live := h.live.filter (· ≠ id), freed := id :: h.freed, trace := .f id :: h.trace }
    else .error (.doubleFree v)

def freeVars (h : H) : List Var → Except Fault H
  | [] => .ok h
  | v :: rest => match freeVar h v with
                 | .ok h' => freeVars h' rest
                 | .error f => .error f

/-- raising an error: with a longjmp handler control leaves. -/
def raise (r : Regime) (h : H) : Option H × H :=
  let h' := { h with trace := .E :: h.trace }
  match r with
  | .longjmp => (none, h')
  | .returning => (some h', h')

/-- interpreter of a function body; `fails k` = the k-th `mju_malloc` call (0-based) fails. -/
def run (r : Regime) (fails : Nat → Bool) : List Step → H → Out × H
  | [], h => (.returned none, h)
  | .alloc v size raising :: rest, h =>
    if size = 0 then
      -- mju_malloc(0) returns NULL without raising
      run r fails rest { h with calls := h.calls + 1, env := (v, none) :: h.env, trace := .x 0 :: h.trace }
    else if fails h.calls then
      let h1 := { h with calls := h.calls + 1, env := (v, none) :: h.env, trace := .x size :: h.trace }
      if raising then
        match raise r h1 with
        | (none, h2) => (.jumped, h2)
        | (some h2, _) => run r fails rest h2
      else run r fails rest h1
    else
      let id := h.calls + 1
      run r fails rest { h with calls := id, live := id :: h.live, env := (v, some id) :: h.env, trace := .a size :: h.trace }
  | .ifNull v cleanup e :: rest, h =>
    match lookup h.env v with
    | none => (.fault (.unbound v), h)
    | some (some _) => run r fails rest h
    | some none =>
      match freeVars h cleanup with
      | .error f => (.fault f, h)
      | .ok h1 =>
        match e with
        | .warnReturn => (.returned none, { h1 with trace := .W :: h1.trace })
        | .warnFreeReturn after =>
          (match freeVars { h1 with trace := .W :: h1.trace } after with
           | .ok h2 => (.returned none, h2)
           | .error f => (.fault f, h1))
        | .error =>
          match raise r h1 with
          | (none, h2) => (.jumped, h2)
          | (some h2, _) => run r fails rest h2
  | .use v :: rest, h =>
    match deref h v with
    | some f => (.fault f, h)
    | none => run r fails rest h
  | .useIfSet g v :: rest, h =>
    match lookup h.env g with
    | none => (.fault (.unbound g), h)
    | some none => run r fails rest h
    | some (some _) =>
      match deref h v with
      | some f => (.fault f, h)
      | none => run r fails rest h
  | .free v :: rest, h =>
    match freeVar h v with
    | .error f => (.fault f, h)
    | .ok h1 => run r fails rest h1
  | .ret v :: _, h =>
    match lookup h.env v with
    | none => (.fault (.unbound v), h)
    | some x => (.returned x, h)

/-- a scenario: the library function(s), then what the caller does with a returned object. -/
structure Scenario where
  body : List Step
  cleanup : List Step
  deriving Repr

/-- run the body; if it handed an object to the caller, the caller deletes it.  After a longjmp the
    caller holds nothing (the return value is lost). -/
def exec (r : Regime) (fails : Nat → Bool) (s : Scenario) : Out × H :=
  match run r fails s.body H.init with
  | (.returned (some _), h) =>
    (match run r fails s.cleanup h with
     | (.returned _, h') => (.returned none, h')
     | other => other)
  | other => other

/-! ## The scenarios (engine_io.c, nplugin = 0)

`vt = .asIs`: the tree – every allocation is `mju_malloc`, which raises by itself.
`vt = .tryMalloc`: the proposed fix – the life-cycle functions allocate without raising and keep their
explicit `if (!ptr) { cleanup; mjERROR }`; mju_writeResource tests its local mjVFS and reports failure. -/

def Variant.raising : Variant → Bool
  | .asIs => true
  | .tryMalloc => false

/-- mj_makeModel(&m, …) with `*dest == NULL`. -/
def makeModelBody (vt : Variant) (szModel nbuffer : Nat) : List Step :=
  [.alloc .m szModel vt.raising, .ifNull .m [] .error, .use .m,
   .alloc .mbuf nbuffer vt.raising, .ifNull .mbuf [.m] .error, .use .m, .use .mbuf, .use .m]

/-- mj_deleteModel(m). -/
def deleteModel : List Step := [.use .m, .free .mbuf, .free .m]

/-- mj_makeRawData(&d, m) with `*dest == NULL`. -/
def makeRawDataBody (vt : Variant) (szData nbuffer narena : Nat) : List Step :=
  [.alloc .d szData vt.raising, .ifNull .d [] .error, .use .d,
   .alloc .dbuf nbuffer vt.raising, .ifNull .dbuf [.d] .error,
   .use .d, .alloc .darena narena vt.raising, .ifNull .darena [.dbuf, .d] .error,
   .use .d]

/-- mj_deleteData(d). -/
def deleteData : List Step := [.use .d, .free .dbuf, .free .darena, .free .d]

/-- `d = mj_makeData(m); … mj_deleteData(d)`. -/
def makeData (vt : Variant) (szData nbuffer narena : Nat) : Scenario :=
  { body := makeRawDataBody vt szData nbuffer narena ++
            [.useIfSet .d .d, .useIfSet .d .dbuf, .useIfSet .d .darena, .ret .d],
    cleanup := deleteData }

/-- `d2 = mj_copyData(NULL, m, src); … mj_deleteData(d2)` (mj_copyDataVisual: no test of `dest`
    after mj_makeRawData). -/
def copyData (vt : Variant) (szData nbuffer narena : Nat) : Scenario :=
  { body := makeRawDataBody vt szData nbuffer narena ++ [.use .d, .use .dbuf, .use .darena, .ret .d],
    cleanup := deleteData }

/-- `m2 = mj_copyModel(NULL, src); … mj_deleteModel(m2)`. -/
def copyModel (vt : Variant) (szModel nbuffer : Nat) : Scenario :=
  { body := makeModelBody vt szModel nbuffer ++ [.ifNull .m [] .error, .use .m, .use .mbuf, .ret .m],
    cleanup := deleteModel }

/-- `m2 = mj_loadModelBuffer(buf, n); … mj_deleteModel(m2)` on a well-formed buffer. -/
def loadModel (vt : Variant) (szModel nbuffer : Nat) : Scenario :=
  { body := makeModelBody vt szModel nbuffer ++ [.ifNull .m [] .warnReturn, .use .m, .use .mbuf, .ret .m],
    cleanup := deleteModel }

/-- `mj_saveModel(m, filename, NULL, 0)`: temporary buffer, then mju_writeResource's local mjVFS
    (in the tree the only test of that pointer is mj_defaultVFS's `if (vfs == nullptr) mju_error(…)`,
    after which it is used; tested, with the buffer released, in the fixed variant). -/
def saveModel : Variant → Nat → Nat → Scenario
  | .asIs, szBuf, szVfs =>
    { body := [.alloc .tmp szBuf true, .ifNull .tmp [] .warnReturn, .use .tmp,
               .alloc .vfs szVfs true, .ifNull .vfs [] .error, .use .vfs, .free .vfs, .free .tmp],
      cleanup := [] }
  | .tryMalloc, szBuf, szVfs =>
    { body := [.alloc .tmp szBuf false, .ifNull .tmp [] .warnReturn, .use .tmp,
               .alloc .vfs szVfs false, .ifNull .vfs [] (.warnFreeReturn [.tmp]), .use .vfs, .free .vfs, .free .tmp],
      cleanup := [] }

end MjProof.AllocProtocol
