import MjProof.Num
/-
Hand-written models of the closed-form functions of `mjx/mujoco/mjx/_src/math.py`, written against
`MjNum α` as the source writes them (operation for operation, including the order of the operands; a
`jp.dot` of two 3-vectors is the left-to-right sum of the three products).  They run on `Float` in
`Drivers/C43.lean`, where they are compared with the real `math.py` under x64, and are related on `ℝ`
to the kernels that `translate/c2lean.py` generates from the C sources (`Props/C43.lean`).

Core Lean only.
-/
namespace MjProof.MjxMath
open MjProof

section
variable {α : Type} [MjNum α]

def two : α := MjNum.ofInt 2
def half : α := MjNum.ofSci 5 true 1

def dot3 (a0 a1 a2 b0 b1 b2 : α) : α := a0 * b0 + a1 * b1 + a2 * b2

/-- `jp.cross(a, b)` -/
def cross3 (a0 a1 a2 b0 b1 b2 : α) : α × α × α :=
  (a1 * b2 - a2 * b1, a2 * b0 - a0 * b2, a0 * b1 - a1 * b0)

/-- `quat_mul(u, v)` -/
def quatMul (u0 u1 u2 u3 v0 v1 v2 v3 : α) : α × α × α × α :=
  (u0 * v0 - u1 * v1 - u2 * v2 - u3 * v3,
   u0 * v1 + u1 * v0 + u2 * v3 - u3 * v2,
   u0 * v2 - u1 * v3 + u2 * v0 + u3 * v1,
   u0 * v3 + u1 * v2 - u2 * v1 + u3 * v0)

/-- `quat_mul_axis(q, axis)` -/
def quatMulAxis (q0 q1 q2 q3 a0 a1 a2 : α) : α × α × α × α :=
  ((-q1) * a0 - q2 * a1 - q3 * a2,
   q0 * a0 + q2 * a2 - q3 * a1,
   q0 * a1 + q3 * a0 - q1 * a2,
   q0 * a2 + q1 * a1 - q2 * a0)

/-- `rotate(vec, quat)`: `r = 2*(dot(u,vec)*u) + (s*s - dot(u,u))*vec; r = r + 2*s*cross(u,vec)` -/
def rotate (v0 v1 v2 q0 q1 q2 q3 : α) : α × α × α :=
  let uv := dot3 q1 q2 q3 v0 v1 v2
  let k := q0 * q0 - dot3 q1 q2 q3 q1 q2 q3
  let c := cross3 q1 q2 q3 v0 v1 v2
  let ts := two * q0
  (two * (uv * q1) + k * v0 + ts * c.1,
   two * (uv * q2) + k * v1 + ts * c.2.1,
   two * (uv * q3) + k * v2 + ts * c.2.2)

/-- `quat_to_mat(q)` (row-major 3×3); `q = jp.outer(q, q)` first -/
def quatToMat (q0 q1 q2 q3 : α) : α × α × α × α × α × α × α × α × α :=
  let q00 := q0 * q0; let q01 := q0 * q1; let q02 := q0 * q2; let q03 := q0 * q3
  let q11 := q1 * q1; let q12 := q1 * q2; let q13 := q1 * q3
  let q22 := q2 * q2; let q23 := q2 * q3; let q33 := q3 * q3
  (q00 + q11 - q22 - q33, two * (q12 - q03), two * (q13 + q02),
   two * (q12 + q03), q00 - q11 + q22 - q33, two * (q23 - q01),
   two * (q13 - q02), two * (q23 + q01), q00 - q11 - q22 + q33)

/-- `axis_angle_to_quat(axis, angle)` -/
def axisAngleToQuat (a0 a1 a2 angle : α) : α × α × α × α :=
  let s := MjNum.sin (angle * half)
  let c := MjNum.cos (angle * half)
  (c, a0 * s, a1 * s, a2 * s)

/-- `motion_cross(u, v)` -/
def motionCross (u0 u1 u2 u3 u4 u5 v0 v1 v2 v3 v4 v5 : α) : α × α × α × α × α × α :=
  let ang := cross3 u0 u1 u2 v0 v1 v2
  let a := cross3 u3 u4 u5 v0 v1 v2
  let b := cross3 u0 u1 u2 v3 v4 v5
  (ang.1, ang.2.1, ang.2.2, a.1 + b.1, a.2.1 + b.2.1, a.2.2 + b.2.2)

/-- `motion_cross_force(v, f)` -/
def motionCrossForce (v0 v1 v2 v3 v4 v5 f0 f1 f2 f3 f4 f5 : α) : α × α × α × α × α × α :=
  let a := cross3 v0 v1 v2 f0 f1 f2
  let b := cross3 v3 v4 v5 f3 f4 f5
  let vel := cross3 v0 v1 v2 f3 f4 f5
  (a.1 + b.1, a.2.1 + b.2.1, a.2.2 + b.2.2, vel.1, vel.2.1, vel.2.2)

/-- `inert_mul(i, v)`: `inr = i[[[0,3,4],[3,1,5],[4,5,2]]]`, `pos = i[6:9]`, `mass = i[9]` -/
def inertMul (i0 i1 i2 i3 i4 i5 i6 i7 i8 i9 v0 v1 v2 v3 v4 v5 : α) : α × α × α × α × α × α :=
  let c1 := cross3 i6 i7 i8 v3 v4 v5
  let c2 := cross3 i6 i7 i8 v0 v1 v2
  (dot3 i0 i3 i4 v0 v1 v2 + c1.1, dot3 i3 i1 i5 v0 v1 v2 + c1.2.1, dot3 i4 i5 i2 v0 v1 v2 + c1.2.2,
   i9 * v3 - c2.1, i9 * v4 - c2.2.1, i9 * v5 - c2.2.2)

/-! ### constraint stiffness / damping / impedance

`mjxKbi` is `_kbi` of `mjx/_src/constraint.py`, `cKbi` is what the C engine computes for the same row:
the tail of `getsolparam` (mixed-format replacement, REFSAFE, clamping of solimp), `getimpedance` and the
K, B, I entries that `mj_makeImpedance` writes to `efc_KBIP` for a non-friction row
(`engine_core_constraint.c`).  Both are written operation for operation against `MjNum α`; the power
function (`jp.power` / `mju_pow`) is a parameter: `Float.pow` in the driver, `Real.rpow` in the proofs.
`refsafe = true` means the REFSAFE disable bit is NOT set. -/

def one : α := MjNum.ofInt 1
def zero : α := MjNum.ofInt 0
/-- `mjMINIMP`, `mjMAXIMP` (mjmodel.h), `mjMINVAL` (mjtype.h) -/
def minimp : α := MjNum.ofSci 1 true 4
def maximp : α := MjNum.ofSci 9999 true 4
def minval : α := MjNum.ofSci 1 true 15

/-- `jp.clip(x, lo, hi)` = `minimum(maximum(x, lo), hi)` -/
def jclip (x lo hi : α) : α := MjNum.min (MjNum.max x lo) hi
/-- `mju_min(hi, mju_max(lo, x))` -/
def cclip (x lo hi : α) : α := MjNum.min hi (MjNum.max lo x)

/-- K of `_kbi`: `k = 1/(dmax² timeconst² dampratio²)`; `k = where(solref[0] <= 0, -solref[0]/dmax², k)`.
    `tc` is the time constant after the REFSAFE clamp, `sr0` the ORIGINAL `solref[0]`. -/
def mjxK (sr0 sr1 tc dmax : α) : α :=
  let k := one / (dmax * dmax * tc * tc * sr1 * sr1)
  if sr0 ≤ zero then (-sr0) / (dmax * dmax) else k

/-- B of `_kbi`: `b = 2/(dmax timeconst)`; `b = where(solref[1] <= 0, -solref[1]/dmax, b)` -/
def mjxB (sr1 tc dmax : α) : α :=
  let b := two / (dmax * tc)
  if sr1 ≤ zero then (-sr1) / dmax else b

/-- the impedance of `_kbi` (arguments already clamped) -/
def mjxImp (pw : α → α → α) (dmin dmax width mid power pos : α) : α :=
  let x := MjNum.abs pos / width
  let ia := (one / pw mid (power - one)) * pw x power
  let ib := one - (one / pw (one - mid) (power - one)) * pw (one - x) power
  let y := if x < mid then ia else ib
  let imp := dmin + y * (dmax - dmin)
  let imp := jclip imp dmin dmax
  if one < x then dmax else imp

/-- `_kbi(m, solref, solimp, pos)` -> (k, b, imp) -/
def mjxKbi (pw : α → α → α) (refsafe : Bool) (ts sr0 sr1 d0 d1 w mid p pos : α) : α × α × α :=
  let tc := if refsafe then MjNum.max sr0 (two * ts) else sr0
  let dmin := jclip d0 minimp maximp
  let dmax := jclip d1 minimp maximp
  let width := MjNum.max minval w
  let mid := jclip mid minimp maximp
  let power := MjNum.max one p
  (mjxK sr0 sr1 tc dmax, mjxB sr1 tc dmax, mjxImp pw dmin dmax width mid power pos)

/-- `power(a, b)` of engine_core_constraint.c: quick returns for the exponents 1 and 2 -/
def cPower (pw : α → α → α) (a b : α) : α :=
  if MjNum.beq b one then a else if MjNum.beq b two then a * a else pw a b

/-- `getimpedance(solimp, pos, margin, &imp, &impP)`, the value `*imp`; `x0 = pos - margin` -/
def cImp (pw : α → α → α) (d0 d1 w mid p x0 : α) : α :=
  if MjNum.beq d0 d1 || decide (w ≤ minval) then half * (d0 + d1) else
  let x := x0 / w
  let x := if x < zero then -x else x
  if decide (one ≤ x) || decide (x ≤ zero) then (if one ≤ x then d1 else d0) else
  let y :=
    if MjNum.beq p one then x
    else if x ≤ mid then (one / cPower pw mid (p - one)) * cPower pw x p
    else one - (one / cPower pw (one - mid) (p - one)) * cPower pw (one - x) p
  d0 + y * (d1 - d0)

/-- the solref that `getsolparam` hands to `mj_makeImpedance`: a mixed-sign pair is replaced by the default
    (0.02, 1) (with a warning), then the REFSAFE clamp is applied to a positive time constant -/
def cSolref (refsafe : Bool) (ts sr0 sr1 : α) : α × α :=
  let mixed := (decide (zero < sr0)) != (decide (zero < sr1))
  let r0 := if mixed then MjNum.ofSci 2 true 2 else sr0
  let r1 := if mixed then one else sr1
  let r0 := if refsafe && decide (zero < r0) then MjNum.max r0 (two * ts) else r0
  (r0, r1)

/-- K, B of `mj_makeImpedance` for a row that is neither a friction-loss row nor a friction dimension of an
    elliptic contact -/
def cK (r0 r1 d1 : α) : α :=
  if zero < r0 then one / MjNum.max minval (d1 * d1 * r0 * r0 * r1 * r1) else (-r0) / MjNum.max minval (d1 * d1)
def cB (r0 r1 d1 : α) : α :=
  if zero < r1 then two / MjNum.max minval (d1 * r0) else (-r1) / MjNum.max minval d1

/-- (K, B, I) of `efc_KBIP` as the C engine computes them from the raw model parameters -/
def cKbi (pw : α → α → α) (refsafe : Bool) (ts sr0 sr1 d0 d1 w mid p x0 : α) : α × α × α :=
  let r := cSolref refsafe ts sr0 sr1
  let e0 := cclip d0 minimp maximp
  let e1 := cclip d1 minimp maximp
  let w := MjNum.max zero w
  let mid := cclip mid minimp maximp
  let p := MjNum.max one p
  (cK r.1 r.2 e1, cB r.1 r.2 e1, cImp pw e0 e1 w mid p x0)

end

/-! ### sparse inertia matrix: where `euler` adds the implicit joint damping

`sparseRows dof_parentid` is the row layout of the lower-triangular CSR matrix `M` (`M_rownnz`, `M_rowadr`, `M_colind` of the
compiled model, compared exactly with the tree-compiled arrays by the driver op `diagadr`); `diagAdr` is the index expression
`m.M_rowadr + m.M_rownnz - 1` of the sparse branch of `euler` in mjx/_src/forward.py (extracted from the source with ast by the check).  Rows of dofs the compiler marks simple (`dof_simplenum > 0`, free bodies
with diagonal inertia) are reduced to the diagonal entry alone; models containing such dofs below a parent dof are left out of the tie. -/

/-- rows of the lower-triangular CSR inertia matrix from `dof_parentid`: row i = row of its parent dof followed by i
    (ancestor dofs in increasing order, the diagonal last); a parent that is not an earlier dof gives a root row -/
def sparseStep (rows : List (List Nat)) (p : Int) : List (List Nat) :=
  let base := if p < 0 then [] else (rows[p.toNat]?).getD []
  rows ++ [base ++ [rows.length]]

def sparseRows (parents : List Int) : List (List Nat) := parents.foldl sparseStep []

def rowAdr (rows : List (List Nat)) (i : Nat) : Nat := ((rows.take i).map List.length).sum
/-- the address `M_rowadr[i] + M_rownnz[i] - 1` that `euler` of mjx/_src/forward.py adds `h * dof_damping[i]` to -/
def diagAdr (rows : List (List Nat)) (i : Nat) : Nat := rowAdr rows i + ((rows[i]?).getD []).length - 1

end MjProof.MjxMath
