import MjProof.Num
/-
Hand-written models of the closed-form functions of `mjx/mujoco/mjx/_src/math.py`, written against
`MjNum α` as the source writes them (operation for operation, including the order of the operands; a
`jp.dot` of two 3-vectors is the left-to-right sum of the three products).  They run on `Float` in
`Drivers/C43.lean`, where they are compared with the real `math.py` under x64, and are related on `ℝ`
to the kernels that `translate/c2lean.py` generates from the C sources (`Props/C43.lean`).

Core Lean only.
-/
namespace MjProof.MjxMath
open MjProof

section
variable {α : Type} [MjNum α]

def two : α := MjNum.ofInt 2
def half : α := MjNum.ofSci 5 true 1

def dot3 (a0 a1 a2 b0 b1 b2 : α) : α := a0 * b0 + a1 * b1 + a2 * b2

/-- `jp.cross(a, b)` -/
def cross3 (a0 a1 a2 b0 b1 b2 : α) : α × α × α :=
  (a1 * b2 - a2 * b1, a2 * b0 - a0 * b2, a0 * b1 - a1 * b0)

/-- `quat_mul(u, v)` -/
def quatMul (u0 u1 u2 u3 v0 v1 v2 v3 : α) : α × α × α × α :=
  (u0 * v0 - u1 * v1 - u2 * v2 - u3 * v3,
   u0 * v1 + u1 * v0 + u2 * v3 - u3 * v2,
   u0 * v2 - u1 * v3 + u2 * v0 + u3 * v1,
   u0 * v3 + u1 * v2 - u2 * v1 + u3 * v0)

/-- `quat_mul_axis(q, axis)` -/
def quatMulAxis (q0 q1 q2 q3 a0 a1 a2 : α) : α × α × α × α :=
  ((-q1) * a0 - q2 * a1 - q3 * a2,
   q0 * a0 + q2 * a2 - q3 * a1,
   q0 * a1 + q3 * a0 - q1 * a2,
   q0 * a2 + q1 * a1 - q2 * a0)

/-- `rotate(vec, quat)`: `r = 2*(dot(u,vec)*u) + (s*s - dot(u,u))*vec; r = r + 2*s*cross(u,vec)` -/
def rotate (v0 v1 v2 q0 q1 q2 q3 : α) : α × α × α :=
  let uv := dot3 q1 q2 q3 v0 v1 v2
  let k := q0 * q0 - dot3 q1 q2 q3 q1 q2 q3
  let c := cross3 q1 q2 q3 v0 v1 v2
  let ts := two * q0
  (two * (uv * q1) + k * v0 + ts * c.1,
   two * (uv * q2) + k * v1 + ts * c.2.1,
   two * (uv * q3) + k * v2 + ts * c.2.2)

/-- `quat_to_mat(q)` (row-major 3×3); `q = jp.outer(q, q)` first -/
def quatToMat (q0 q1 q2 q3 : α) : α × α × α × α × α × α × α × α × α :=
  let q00 := q0 * q0; let q01 := q0 * q1; let q02 := q0 * q2; let q03 := q0 * q3
  let q11 := q1 * q1; let q12 := q1 * q2; let q13 := q1 * q3
  let q22 := q2 * q2; let q23 := q2 * q3; let q33 := q3 * q3
  (q00 + q11 - q22 - q33, two * (q12 - q03), two * (q13 + q02),
   two * (q12 + q03), q00 - q11 + q22 - q33, two * (q23 - q01),
   two * (q13 - q02), two * (q23 + q01), q00 - q11 - q22 + q33)

/-- `axis_angle_to_quat(axis, angle)` -/
def axisAngleToQuat (a0 a1 a2 angle : α) : α × α × α × α :=
  let s := MjNum.sin (angle * half)
  let c := MjNum.cos (angle * half)
  (c, a0 * s, a1 * s, a2 * s)

/-- `motion_cross(u, v)` -/
def motionCross (u0 u1 u2 u3 u4 u5 v0 v1 v2 v3 v4 v5 : α) : α × α × α × α × α × α :=
  let ang := cross3 u0 u1 u2 v0 v1 v2
  let a := cross3 u3 u4 u5 v0 v1 v2
  let b := cross3 u0 u1 u2 v3 v4 v5
  (ang.1, ang.2.1, ang.2.2, a.1 + b.1, a.2.1 + b.2.1, a.2.2 + b.2.2)

/-- `motion_cross_force(v, f)` -/
def motionCrossForce (v0 v1 v2 v3 v4 v5 f0 f1 f2 f3 f4 f5 : α) : α × α × α × α × α × α :=
  let a := cross3 v0 v1 v2 f0 f1 f2
  let b := cross3 v3 v4 v5 f3 f4 f5
  let vel := cross3 v0 v1 v2 f3 f4 f5
  (a.1 + b.1, a.2.1 + b.2.1, a.2.2 + b.2.2, vel.1, vel.2.1, vel.2.2)

/-- `inert_mul(i, v)`: `inr = i[[[0,3,4],[3,1,5],[4,5,2]]]`, `pos = i[6:9]`, `mass = i[9]` -/
def inertMul (i0 i1 i2 i3 i4 i5 i6 i7 i8 i9 v0 v1 v2 v3 v4 v5 : α) : α × α × α × α × α × α :=
  let c1 := cross3 i6 i7 i8 v3 v4 v5
  let c2 := cross3 i6 i7 i8 v0 v1 v2
  (dot3 i0 i3 i4 v0 v1 v2 + c1.1, dot3 i3 i1 i5 v0 v1 v2 + c1.2.1, dot3 i4 i5 i2 v0 v1 v2 + c1.2.2,
   i9 * v3 - c2.1, i9 * v4 - c2.2.1, i9 * v5 - c2.2.2)

end
end MjProof.MjxMath
