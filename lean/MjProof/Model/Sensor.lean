import MjProof.Num
import MjProof.Gen.Kernels
/-
C28 — executable model of the sensor stage of `src/engine/engine_sensor.c`, written once over the law-free
number class `MjNum α` (runs on `Float` in `Drivers/C28.lean`, reasoned about on `ℝ` in `Props/C28.lean`).
Core Lean only.

Modelled, in the operation order of the C code (so that the `Float` instance is bit-comparable):
  * `apply_cutoff`: `cutoff <= 0` → untouched; `mjSENS_CONTACT` / `mjSENS_GEOMFROMTO` → untouched; per element
    `mjDATATYPE_REAL` → `mju_clip(x, -cutoff, cutoff)`, `mjDATATYPE_POSITIVE` → `mju_min(cutoff, x)`, AXIS and
    QUATERNION → untouched.  `mju_clip` / `mju_min` are the *generated* kernels (c2lean, from the tree).
  * the layout of `sensor_adr` (`mjCModel::CopyObjects`, user_model.cc: running sum of `sensor_dim`).
  * `get_xpos_xmat`, `get_xquat`: which mjData / mjModel array each object type (BODY = inertial frame,
    XBODY = body frame, GEOM, SITE, CAMERA) is read from.
  * `mj_computeSensorPos` for FRAMEPOS, FRAMEXAXIS/YAXIS/ZAXIS, FRAMEQUAT with and without a reference frame.
  * `mj_objectVelocity`, `mj_objectAcceleration` (engine_core_util.c; including the quick return for bodies welded
    to the world) on top of the generated `mju_transformSpatial` / `mju_transformSpatial_world`, `mju_cross`.
  * `mj_computeSensorVel` for VELOCIMETER, GYRO, FRAMELINVEL, FRAMEANGVEL (with the rotating-reference correction).
  * `mj_computeSensorAcc` for ACCELEROMETER, FORCE, TORQUE, FRAMELINACC, FRAMEANGACC (given `cacc`, `cfrc_int`:
    `mj_rnePostConstraint` itself is not modelled).
  * `mj_computeSensor`: stage function followed by `apply_cutoff`.
Every other sensor type is decided by the property oracle only (checks/c28.py).
All lookups return `none` when an index is out of range (no defaulting).
-/
namespace MjProof.Sensor
open MjProof MjProof.Gen

abbrev V3 (α : Type) := α × α × α
abbrev Q4 (α : Type) := α × α × α × α
abbrev V6 (α : Type) := α × α × α × α × α × α
/-- row-major 3×3 matrix, as MuJoCo stores it -/
abbrev M9 (α : Type) := α × α × α × α × α × α × α × α × α

variable {α : Type} [MjNum α]

/-! ### `apply_cutoff` -/

inductive DataType | real | positive | axis | quaternion
  deriving DecidableEq, Repr

/-- the only thing `apply_cutoff` asks of the sensor type: CONTACT and GEOMFROMTO are exempt -/
inductive CutoffClass | exempt | regular
  deriving DecidableEq, Repr

/-- loop body of `apply_cutoff` -/
def cutoffElem (dt : DataType) (cutoff x : α) : α :=
  match dt with
  | .real => mju_clip x (-cutoff) cutoff
  | .positive => mju_min cutoff x
  | _ => x

/-- `apply_cutoff(m, i, data)` on the `sensor_dim[i]` entries of the sensor's slice -/
def applyCutoff (cls : CutoffClass) (dt : DataType) (cutoff : α) (data : List α) : List α :=
  if cutoff ≤ MjNum.ofInt 0 then data
  else match cls with
    | .exempt => data
    | .regular => data.map (cutoffElem dt cutoff)

/-! ### `sensor_adr` layout -/

/-- running sum: `sensor_adr[i] = adr; adr += dim` -/
def adrFrom (start : Nat) : List Nat → List Nat
  | [] => []
  | d :: ds => start :: adrFrom (start + d) ds

def sensorAdr (dims : List Nat) : List Nat := adrFrom 0 dims
/-- `nsensordata += sensors_[i]->dim` -/
def nsensordata (dims : List Nat) : Nat := dims.foldl (· + ·) 0

/-! ### small vector helpers (as the engine's inlined macros compute them) -/

def sub3 (a b : V3 α) : V3 α := (a.1 - b.1, a.2.1 - b.2.1, a.2.2 - b.2.2)
def add3 (a b : V3 α) : V3 α := (a.1 + b.1, a.2.1 + b.2.1, a.2.2 + b.2.2)
def sub6 (a b : V6 α) : V6 α :=
  (a.1 - b.1, a.2.1 - b.2.1, a.2.2.1 - b.2.2.1, a.2.2.2.1 - b.2.2.2.1, a.2.2.2.2.1 - b.2.2.2.2.1,
   a.2.2.2.2.2 - b.2.2.2.2.2)
def ang (v : V6 α) : V3 α := (v.1, v.2.1, v.2.2.1)
def lin (v : V6 α) : V3 α := (v.2.2.2.1, v.2.2.2.2.1, v.2.2.2.2.2)
def mk6 (a l : V3 α) : V6 α := (a.1, a.2.1, a.2.2, l.1, l.2.1, l.2.2)
def zero6 : V6 α := (MjNum.ofInt 0, MjNum.ofInt 0, MjNum.ofInt 0, MjNum.ofInt 0, MjNum.ofInt 0, MjNum.ofInt 0)

def mulMatTVec3 (m : M9 α) (v : V3 α) : V3 α :=
  mju_mulMatTVec3 m.1 m.2.1 m.2.2.1 m.2.2.2.1 m.2.2.2.2.1 m.2.2.2.2.2.1 m.2.2.2.2.2.2.1 m.2.2.2.2.2.2.2.1
    m.2.2.2.2.2.2.2.2 v.1 v.2.1 v.2.2
def cross (a b : V3 α) : V3 α := mju_cross a.1 a.2.1 a.2.2 b.1 b.2.1 b.2.2
def mulQuat (a b : Q4 α) : Q4 α := mju_mulQuat a.1 a.2.1 a.2.2.1 a.2.2.2 b.1 b.2.1 b.2.2.1 b.2.2.2
def negQuat (q : Q4 α) : Q4 α := mju_negQuat q.1 q.2.1 q.2.2.1 q.2.2.2

/-- column `k` of a row-major matrix: `{xmat[k], xmat[k+3], xmat[k+6]}` -/
def matCol (m : M9 α) : Fin 3 → V3 α
  | 0 => (m.1, m.2.2.2.1, m.2.2.2.2.2.2.1)
  | 1 => (m.2.1, m.2.2.2.2.1, m.2.2.2.2.2.2.2.1)
  | 2 => (m.2.2.1, m.2.2.2.2.2.1, m.2.2.2.2.2.2.2.2)

/-- `mju_transformSpatial(res, vec, flg_force, newpos, oldpos, rotnew2old)`; `rot = none` is the NULL pointer -/
def transformSpatial (vec : V6 α) (flgForce : Bool) (newpos oldpos : V3 α) (rot : Option (M9 α)) : V6 α :=
  let f : Int := if flgForce then 1 else 0
  match rot with
  | some m =>
    mju_transformSpatial vec.1 vec.2.1 vec.2.2.1 vec.2.2.2.1 vec.2.2.2.2.1 vec.2.2.2.2.2 f
      newpos.1 newpos.2.1 newpos.2.2 oldpos.1 oldpos.2.1 oldpos.2.2
      m.1 m.2.1 m.2.2.1 m.2.2.2.1 m.2.2.2.2.1 m.2.2.2.2.2.1 m.2.2.2.2.2.2.1 m.2.2.2.2.2.2.2.1 m.2.2.2.2.2.2.2.2
  | none =>
    mju_transformSpatial_world vec.1 vec.2.1 vec.2.2.1 vec.2.2.2.1 vec.2.2.2.2.1 vec.2.2.2.2.2 f
      newpos.1 newpos.2.1 newpos.2.2 oldpos.1 oldpos.2.1 oldpos.2.2

/-! ### the slice of mjModel / mjData the modelled sensors read -/

structure Body (α : Type) where
  weldid : Nat
  rootid : Nat
  dofnum : Nat
  xpos : V3 α
  xmat : M9 α
  xipos : V3 α
  ximat : M9 α
  xquat : Q4 α
  iquat : Q4 α            -- m->body_iquat
  cvel : V6 α
  cacc : V6 α
  cfrcInt : V6 α
  subtreeCom : V3 α

/-- a geom, site or camera: parent body, global pose (mjData), local orientation (mjModel) -/
structure Attached (α : Type) where
  bodyid : Nat
  xpos : V3 α
  xmat : M9 α
  quat : Q4 α

structure Scene (α : Type) where
  bodies : List (Body α)
  geoms : List (Attached α)
  sites : List (Attached α)
  cams : List (Attached α)

/-- the object types with a spatial frame (`mjtObj`) -/
inductive ObjType | body | xbody | geom | site | camera
  deriving DecidableEq, Repr

/-- `get_xpos_xmat` -/
def getXposXmat (s : Scene α) (t : ObjType) (id : Nat) : Option (V3 α × M9 α) :=
  match t with
  | .xbody => s.bodies[id]?.map fun b => (b.xpos, b.xmat)
  | .body => s.bodies[id]?.map fun b => (b.xipos, b.ximat)
  | .geom => s.geoms[id]?.map fun g => (g.xpos, g.xmat)
  | .site => s.sites[id]?.map fun g => (g.xpos, g.xmat)
  | .camera => s.cams[id]?.map fun g => (g.xpos, g.xmat)

def attachedQuat (s : Scene α) (a : Attached α) : Option (Q4 α) :=
  s.bodies[a.bodyid]?.map fun b => mulQuat b.xquat a.quat

/-- `get_xquat` -/
def getXquat (s : Scene α) (t : ObjType) (id : Nat) : Option (Q4 α) :=
  match t with
  | .xbody => s.bodies[id]?.map fun b => b.xquat
  | .body => s.bodies[id]?.map fun b => mulQuat b.xquat b.iquat
  | .geom => s.geoms[id]?.bind (attachedQuat s)
  | .site => s.sites[id]?.bind (attachedQuat s)
  | .camera => s.cams[id]?.bind (attachedQuat s)

/-- body an object is attached to -/
def objBody (s : Scene α) (t : ObjType) (id : Nat) : Option Nat :=
  match t with
  | .xbody | .body => if id < s.bodies.length then some id else none
  | .geom => s.geoms[id]?.map (·.bodyid)
  | .site => s.sites[id]?.map (·.bodyid)
  | .camera => s.cams[id]?.map (·.bodyid)

/-! ### position stage: FRAMEPOS, FRAME?AXIS, FRAMEQUAT -/

/-- FRAMEPOS: `xpos`, or `xmat_refᵀ (xpos − xpos_ref)` -/
def framePos (obj : V3 α × M9 α) (ref : Option (V3 α × M9 α)) : V3 α :=
  match ref with
  | none => obj.1
  | some r => mulMatTVec3 r.2 (sub3 obj.1 r.1)

/-- FRAMEXAXIS + k: column k of `xmat`, or `xmat_refᵀ` times it -/
def frameAxis (k : Fin 3) (obj : V3 α × M9 α) (ref : Option (V3 α × M9 α)) : V3 α :=
  match ref with
  | none => matCol obj.2 k
  | some r => mulMatTVec3 r.2 (matCol obj.2 k)

/-- FRAMEQUAT: `objquat`, or `negQuat(refquat) * objquat` -/
def frameQuat (obj : Q4 α) (ref : Option (Q4 α)) : Q4 α :=
  match ref with
  | none => obj
  | some r => mulQuat (negQuat r) obj

/-! ### `mj_objectVelocity`, `mj_objectAcceleration` -/

/-- `mj_objectVelocity(m, d, objtype, objid, res, flg_local)` -/
def objectVelocity (s : Scene α) (t : ObjType) (id : Nat) (loc : Bool) : Option (V6 α) := do
  let bid ← objBody s t id
  let pr ← getXposXmat s t id
  let b ← s.bodies[bid]?
  let w ← s.bodies[b.weldid]?
  if w.dofnum = 0 then pure zero6 else
  let root ← s.bodies[b.rootid]?
  pure (transformSpatial b.cvel false pr.1 root.subtreeCom (if loc then some pr.2 else none))

/-- `mj_objectAcceleration(m, d, objtype, objid, res, flg_local)` -/
def objectAcceleration (s : Scene α) (t : ObjType) (id : Nat) (loc : Bool) : Option (V6 α) := do
  let bid ← objBody s t id
  let pr ← getXposXmat s t id
  let b ← s.bodies[bid]?
  let w ← s.bodies[b.weldid]?
  if w.dofnum = 0 then pure zero6 else
  let root ← s.bodies[b.rootid]?
  let rot := if loc then some pr.2 else none
  let acc := transformSpatial b.cacc false pr.1 root.subtreeCom rot
  let vel := transformSpatial b.cvel false pr.1 root.subtreeCom rot
  -- Coriolis correction: acc_tran += vel_rot × vel_tran
  pure (mk6 (ang acc) (add3 (lin acc) (cross (ang vel) (lin vel))))

/-! ### velocity stage -/

/-- the 6D velocity FRAMELINVEL / FRAMEANGVEL select from: global object velocity, or the velocity relative to
the (moving, rotating) reference frame expressed in it -/
def frameVel6 (xvel : V6 α) (objPos : V3 α) (ref : Option (V6 α × V3 α × M9 α)) : V6 α :=
  match ref with
  | none => xvel
  | some (xvelRef, posRef, matRef) =>
    let rel := sub6 xvel xvelRef
    let rvec := sub3 objPos posRef
    let c := cross rvec (ang xvelRef)
    let relLin := add3 (lin rel) c
    mk6 (mulMatTVec3 matRef (ang rel)) (mulMatTVec3 matRef relLin)

/-- force / torque sensors: `mju_transformSpatial(tmp, cfrc_int[body], 1, site_xpos, subtree_com[root], site_xmat)` -/
def siteWrench (s : Scene α) (site : Nat) : Option (V6 α) := do
  let st ← s.sites[site]?
  let b ← s.bodies[st.bodyid]?
  let root ← s.bodies[b.rootid]?
  pure (transformSpatial b.cfrcInt true st.xpos root.subtreeCom (some st.xmat))

/-! ### `mj_computeSensor` for the modelled types -/

inductive Kind
  | framepos | frameaxis (k : Fin 3) | framequat
  | velocimeter | gyro | framelinvel | frameangvel
  | accelerometer | force | torque | framelinacc | frameangacc
  deriving DecidableEq, Repr

def l3 (v : V3 α) : List α := [v.1, v.2.1, v.2.2]
def l4 (q : Q4 α) : List α := [q.1, q.2.1, q.2.2.1, q.2.2.2]

/-- the stage function (`mj_computeSensorPos/Vel/Acc`) for sensor kind `k` attached to `(objtype, objid)` with
reference `(reftype, refid)` (`none` ⇔ `sensor_refid == -1`) -/
def computeRaw (s : Scene α) (k : Kind) (ot : ObjType) (oid : Nat) (ref : Option (ObjType × Nat)) :
    Option (List α) :=
  match k with
  | .framepos => do
    let o ← getXposXmat s ot oid
    match ref with
    | none => pure (l3 (framePos o none))
    | some (rt, rid) => do
      let r ← getXposXmat s rt rid
      pure (l3 (framePos o (some r)))
  | .frameaxis ax => do
    let o ← getXposXmat s ot oid
    match ref with
    | none => pure (l3 (frameAxis ax o none))
    | some (rt, rid) => do
      let r ← getXposXmat s rt rid
      pure (l3 (frameAxis ax o (some r)))
  | .framequat => do
    let o ← getXquat s ot oid
    match ref with
    | none => pure (l4 (frameQuat o none))
    | some (rt, rid) => do
      let r ← getXquat s rt rid
      pure (l4 (frameQuat o (some r)))
  | .velocimeter => do
    let v ← objectVelocity s .site oid true
    pure (l3 (lin v))
  | .gyro => do
    let v ← objectVelocity s .site oid true
    pure (l3 (ang v))
  | .framelinvel | .frameangvel => do
    let xvel ← objectVelocity s ot oid false
    let v6 ← match ref with
      | none => pure xvel
      | some (rt, rid) => do
        let o ← getXposXmat s ot oid
        let r ← getXposXmat s rt rid
        let xr ← objectVelocity s rt rid false
        pure (frameVel6 xvel o.1 (some (xr, r.1, r.2)))
    pure (l3 (if k = .framelinvel then lin v6 else ang v6))
  | .accelerometer => do
    let a ← objectAcceleration s .site oid true
    pure (l3 (lin a))
  | .force => do
    let w ← siteWrench s oid
    pure (l3 (lin w))
  | .torque => do
    let w ← siteWrench s oid
    pure (l3 (ang w))
  | .framelinacc => do
    let a ← objectAcceleration s ot oid false
    pure (l3 (lin a))
  | .frameangacc => do
    let a ← objectAcceleration s ot oid false
    pure (l3 (ang a))

/-- `mj_computeSensor`: stage function, then `apply_cutoff` -/
def computeSensor (s : Scene α) (k : Kind) (dt : DataType) (cutoff : α) (ot : ObjType) (oid : Nat)
    (ref : Option (ObjType × Nat)) : Option (List α) :=
  (computeRaw s k ot oid ref).map (applyCutoff .regular dt cutoff)

end MjProof.Sensor
