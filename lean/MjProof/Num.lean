/-
`MjNum`: the operations a numeric kernel of the engine uses — *operations only, no laws* (so it is not
an axiom in disguise).  Generated and hand-written numeric models are written once against `MjNum α`;
they run on `Float` (IEEE double, same libm as the C build) for the correspondence and are reasoned
about on `ℝ` (instance in `MjProof/Lemmas/RealNum.lean`).  Core Lean only.
-/
namespace MjProof

class MjNum (α : Type) extends Add α, Sub α, Mul α, Div α, Neg α, LT α, LE α where
  /-- integer literal / `(mjtNum) n` cast -/
  ofInt : Int → α
  /-- decimal literal `m * 10^(-e)` (or `m * 10^e` when `s = false`) -/
  ofSci : Nat → Bool → Nat → α
  decLt : DecidableRel (α := α) (· < ·)
  decLe : DecidableRel (α := α) (· ≤ ·)
  /-- C `==` on doubles -/
  beq : α → α → Bool
  sqrt : α → α
  sin : α → α
  cos : α → α
  tan : α → α
  asin : α → α
  acos : α → α
  atan2 : α → α → α
  exp : α → α
  log : α → α
  abs : α → α
  floor : α → α
  ceil : α → α
  /-- C `isnan` -/
  isNaN : α → Bool

attribute [instance, instance_reducible] MjNum.decLt MjNum.decLe

/- No global `OfNat α n` / `OfScientific α` instances are declared from `MjNum α`: they would compete
   with Mathlib's numerals on `ℝ`.  Generic code writes literals as `MjNum.ofInt 2`, `MjNum.ofSci 5 true 1`
   (the translator emits exactly these; `lit` below is a shorthand for hand-written models). -/

instance : MjNum Float where
  ofInt := Float.ofInt
  ofSci := OfScientific.ofScientific
  decLt := inferInstance
  decLe := inferInstance
  beq := fun a b => a == b
  sqrt := Float.sqrt
  sin := Float.sin
  cos := Float.cos
  tan := Float.tan
  asin := Float.asin
  acos := Float.acos
  atan2 := Float.atan2
  exp := Float.exp
  log := Float.log
  abs := Float.abs
  floor := Float.floor
  ceil := Float.ceil
  isNaN := Float.isNaN

namespace MjNum
variable {α : Type} [MjNum α]
/-- integer literal shorthand -/
abbrev lit (n : Int) : α := MjNum.ofInt n
/-- `mju_max`, `mju_min` as the C macros compute them (`a > b ? a : b`). -/
def max (a b : α) : α := if b < a then a else b
def min (a b : α) : α := if a < b then a else b
end MjNum

/-- C `int` bitwise operators (32-bit two's complement), used by translated integer decision logic. -/
def intLand (a b : Int) : Int := (BitVec.ofInt 32 a &&& BitVec.ofInt 32 b).toInt
def intLor (a b : Int) : Int := (BitVec.ofInt 32 a ||| BitVec.ofInt 32 b).toInt
def intXor (a b : Int) : Int := (BitVec.ofInt 32 a ^^^ BitVec.ofInt 32 b).toInt

/-- print a Float as the 16 hex digits of its IEEE bit pattern (canonical NaN as `nan`) -/
def floatBits (x : Float) : String :=
  if x.isNaN then "nan" else
  let n := x.toBits.toNat
  let hex := (Nat.toDigits 16 n)
  String.ofList (List.replicate (16 - hex.length) '0' ++ hex)

/-- parse 16 hex digits into a Float -/
def floatOfBits? (s : String) : Option Float :=
  if s == "nan" then some (0.0 / 0.0) else
  if s.length ≠ 16 then none else
  let rec go (cs : List Char) (acc : Nat) : Option Nat :=
    match cs with
    | [] => some acc
    | c :: cs =>
      let d := if '0' ≤ c ∧ c ≤ '9' then some (c.toNat - '0'.toNat)
               else if 'a' ≤ c ∧ c ≤ 'f' then some (c.toNat - 'a'.toNat + 10) else none
      match d with
      | some d => go cs (acc * 16 + d)
      | none => none
  (go s.toList 0).map (fun n => Float.ofBits n.toUInt64)

end MjProof
